// Package judge compares an observed outcome of the port with the outcome
// predicted by the reference model.
package judge

import (
	"fmt"

	"verif/harness/obs"
	"verif/harness/refeval"
)

// Opts selects the comparison relation (DESIGN.md section 2.4).
type Opts struct {
	Multiset      bool // compare top-level arrays as bags (map-order leaky programs)
	EmptyIsUndef  bool // an empty array and "no value" are identified at whole-result level
	AnyError      bool // any error class is acceptable when the model predicts an error
	SeqEquiv      bool // absent = [], x = [x]
	LooseMultiset bool // compare arrays as bags at every level
	// AnyErrorOf: when both the model's and the port's error class are in
	// this set, either is accepted (the statement does not rank them).
	AnyErrorOf []string
}

func inSet(set []string, s string) bool {
	for _, x := range set {
		if x == s {
			return true
		}
	}
	return false
}

// Result of a comparison.
type Result struct {
	OK           bool
	Inconclusive bool
	Detail       string
}

// ToNorm converts a model value to the normalised form used by obs.
func ToNorm(v refeval.Value) interface{} {
	switch x := v.(type) {
	case *refeval.Func:
		return obs.Fn{}
	case []interface{}:
		out := make([]interface{}, len(x))
		for i, e := range x {
			out[i] = ToNorm(e)
		}
		return out
	case map[string]interface{}:
		out := make(map[string]interface{}, len(x))
		for k, e := range x {
			out[k] = ToNorm(e)
		}
		return out
	case float64:
		if x == 0 {
			return float64(0)
		}
		return x
	case *refeval.Seq:
		return ToNorm(x.Items)
	}
	if refeval.IsUndef(v) {
		return nil
	}
	return v
}

func ShowModel(v refeval.Value, err *refeval.Err) string {
	if err != nil {
		return "error " + err.Class
	}
	if refeval.IsUndef(v) {
		return "undefined"
	}
	return "value " + obs.ShowNorm(ToNorm(v))
}

func isEmptyArr(v interface{}) bool {
	a, ok := v.([]interface{})
	return ok && len(a) == 0
}

func looseEq(a, b interface{}) bool {
	switch x := a.(type) {
	case []interface{}:
		y, ok := b.([]interface{})
		if !ok || len(x) != len(y) {
			return false
		}
		used := make([]bool, len(y))
	outer:
		for _, e := range x {
			for j, f := range y {
				if !used[j] && looseEq(e, f) {
					used[j] = true
					continue outer
				}
			}
			return false
		}
		return true
	case map[string]interface{}:
		y, ok := b.(map[string]interface{})
		if !ok || len(x) != len(y) {
			return false
		}
		for k, e := range x {
			f, ok := y[k]
			if !ok || !looseEq(e, f) {
				return false
			}
		}
		return true
	}
	return obs.Equal(a, b)
}

// Compare judges the port's outcome o against the model's (mv, merr).
func Compare(o obs.Outcome, mv refeval.Value, merr *refeval.Err, op Opts) Result {
	if merr != nil && merr.Class == "unsupported" {
		return Result{Inconclusive: true, Detail: "model: " + merr.Msg}
	}
	want := ShowModel(mv, merr)
	got := o.String()
	fail := func() Result {
		return Result{Detail: fmt.Sprintf("port: %s; reference model: %s", got, want)}
	}
	if o.Kind == "panic" || o.Kind == "compile-error" {
		return fail()
	}
	if merr != nil {
		if o.Kind != "error" {
			return fail()
		}
		if op.AnyError || merr.Accepts(o.ErrClass) {
			return Result{OK: true}
		}
		if inSet(op.AnyErrorOf, merr.Class) && inSet(op.AnyErrorOf, o.ErrClass) {
			return Result{OK: true}
		}
		return fail()
	}
	if o.Kind == "error" {
		return fail()
	}
	if refeval.IsUndef(mv) {
		if o.Kind == "undefined" {
			return Result{OK: true}
		}
		pn := obs.Normalize(o.Val, nil)
		if (op.EmptyIsUndef || op.SeqEquiv) && isEmptyArr(pn) {
			return Result{OK: true}
		}
		return fail()
	}
	mn := ToNorm(mv)
	if o.Kind == "undefined" {
		if (op.EmptyIsUndef || op.SeqEquiv) && isEmptyArr(mn) {
			return Result{OK: true}
		}
		return fail()
	}
	pn := obs.Normalize(o.Val, nil)
	if _, bad := obs.HasForeign(pn); bad {
		return fail()
	}
	if op.SeqEquiv {
		if _, ok := pn.([]interface{}); !ok {
			pn = []interface{}{pn}
		}
		if _, ok := mn.([]interface{}); !ok {
			mn = []interface{}{mn}
		}
	}
	switch {
	case op.LooseMultiset:
		if looseEq(pn, mn) {
			return Result{OK: true}
		}
	case op.Multiset:
		if obs.EqualMultiset(pn, mn) {
			return Result{OK: true}
		}
	default:
		if obs.Equal(pn, mn) {
			return Result{OK: true}
		}
	}
	return fail()
}
