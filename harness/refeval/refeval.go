// Package refeval is the executable reference model of JSONata used as the
// oracle for the model-based properties. It evaluates the generator's own
// trees (package jast) over plain values, without reflection: an explicit
// sequence type, errors as classes. See DESIGN.md section 2.3.
package refeval

import (
	"encoding/json"
	"fmt"
	"math"
	"sort"
	"strings"

	"verif/harness/jast"
)

// Value is one of: Undef, nil (JSON null), bool, float64, string,
// []interface{}, map[string]interface{}, *Func. Internally also *Seq.
type Value = interface{}

type undefT struct{}

// Undef is "no value".
var Undef = undefT{}

func IsUndef(v Value) bool { _, ok := v.(undefT); return ok }

// Seq is a result sequence; it collapses at every sub-expression boundary.
type Seq struct {
	Items []Value
	Keep  bool
}

func (s *Seq) collapse() Value {
	switch n := len(s.Items); {
	case n == 0:
		return Undef
	case n == 1 && !s.Keep:
		return s.Items[0]
	}
	return s.Items
}

// Err is an evaluation error class, comparable with obs.ErrClassOf.
type Err struct {
	Class string
	Msg   string
	Alt   []string // other acceptable classes (map-order dependent error choice)
}

// Accepts reports whether an observed error class is one the model allows.
func (e *Err) Accepts(class string) bool {
	if e.Class == class {
		return true
	}
	for _, a := range e.Alt {
		if a == class {
			return true
		}
	}
	return false
}

func (e *Err) Error() string { return e.Class + ": " + e.Msg }

// Error kinds (numbers are the port's ErrType values).
const (
	ErrNonIntegerLHS = iota
	ErrNonIntegerRHS
	ErrNonNumberLHS
	ErrNonNumberRHS
	ErrNonComparableLHS
	ErrNonComparableRHS
	ErrTypeMismatch
	ErrNonCallable
	ErrNonCallableApply
	ErrNonCallablePartial
	ErrNumberInf
	ErrNumberNaN
	ErrMaxRangeItems
	ErrIllegalKey
	ErrDuplicateKey
	ErrClone
	ErrIllegalUpdate
	ErrIllegalDelete
	ErrNonSortable
	ErrSortMismatch
)

func evalErr(k int) *Err { return &Err{Class: fmt.Sprintf("eval:%d", k)} }
func argCount() *Err    { return &Err{Class: "argcount"} }
func argType(i int) *Err { return &Err{Class: fmt.Sprintf("argtype:%d", i)} }
func otherErr(m string) *Err { return &Err{Class: "other", Msg: m} }

// Unsupported marks constructs the model deliberately does not cover.
func unsupported(m string) *Err { return &Err{Class: "unsupported", Msg: m} }

// Env is a frame with a parent link.
type Env struct {
	parent *Env
	vars   map[string]Value
}

func NewEnv(parent *Env) *Env { return &Env{parent: parent, vars: map[string]Value{}} }

func (e *Env) Bind(name string, v Value) { e.vars[name] = v }

func (e *Env) Lookup(name string) Value {
	for f := e; f != nil; f = f.parent {
		if v, ok := f.vars[name]; ok {
			return v
		}
	}
	return Undef
}

// Func is a function value.
type Func struct {
	Kind string // builtin | lambda | partial | chain | transform | regex
	Name string
	// lambda
	Params []string
	Sig    []Param
	Typed  bool
	Body   jast.Node
	Ctx    Value
	Env    *Env
	// partial
	Fn   *Func
	Args []jast.Node
	// chain
	Chain []*Func
	// transform
	T *jast.Transform
	// Bound holds the given arguments of a partial application (nil entries
	// at placeholders); nil when they are evaluated at call time
	Bound []Value
	// builtin
	B *Builtin
}

// MarshalJSON: functions stand for empty strings.
func (f *Func) MarshalJSON() ([]byte, error) { return []byte(`""`), nil }

func (f *Func) ParamCount() int {
	switch f.Kind {
	case "lambda":
		return len(f.Params)
	case "builtin":
		return len(f.B.Params)
	case "partial":
		n := 0
		for _, a := range f.Args {
			if _, ok := a.(*jast.Placeholder); ok {
				n++
			}
		}
		return n
	case "chain", "transform", "regex":
		return 1
	}
	return 0
}

// Evaluator holds per-evaluation state.
type Evaluator struct {
	Root  Value
	Steps int // work counter; evaluation aborts as unsupported beyond MaxSteps
	Max   int
	// Mutated is set when a transform would have written outside its clone.
	OutsideWrites int
	// FittingCallsRejected counts calls of typed lambdas that the port's
	// positional signature algorithm (which fitSignature mirrors) rejects
	// although the arguments fit the signature declaratively
	// PartialArgsAtCall makes partial applications evaluate their given
	// arguments at every call (the port's behaviour) instead of once where
	// they are written; PartialsMade counts partial applications created
	PartialArgsAtCall bool
	PartialsMade      int
	// The callback of $each and $sift is offered (value, key, object); by the
	// rule for function values it takes as many of them as it has parameters
	// (none, or a fourth that is 'no value'). RejectOddObjectCallbacks makes the
	// two functions fail for callbacks with 0 or more than 3 parameters instead;
	// OddObjectCallbacks counts such callbacks seen.
	RejectOddObjectCallbacks bool
	OddObjectCallbacks       int
	FittingCallsRejected int
	// ... the same for signatures with an option in a place where the port
	// does not honour it ('-' not first, '?' before a mandatory parameter,
	// '+' not last)
	FittingCallsRejectedNonCanonical int
	// MaxRange bounds the size of ranges the model is willing to build
	// (0 = the language limit only).
	MaxRange int
	cloneSets     []map[uintptr]bool
}

// Eval evaluates a normalised tree on an input document.
func Eval(n jast.Node, input Value, vars map[string]Value) (Value, *Err) {
	ev := &Evaluator{Root: input, Max: 2000000, MaxRange: 20000}
	return ev.Run(n, input, vars)
}

func (ev *Evaluator) Run(n jast.Node, input Value, vars map[string]Value) (Value, *Err) {
	env := NewEnv(baseEnv())
	env.Bind("$", input)
	for k, v := range vars {
		env.Bind(k, v)
	}
	return ev.eval(n, input, env)
}

func isArray(v Value) bool { _, ok := v.([]interface{}); return ok }
func isMap(v Value) bool   { _, ok := v.(map[string]interface{}); return ok }
func isNum(v Value) bool   { _, ok := v.(float64); return ok }
func isStr(v Value) bool   { _, ok := v.(string); return ok }
func isFunc(v Value) bool  { _, ok := v.(*Func); return ok }

func arrayify(v Value) []interface{} {
	if a, ok := v.([]interface{}); ok {
		return a
	}
	if IsUndef(v) {
		return []interface{}{}
	}
	return []interface{}{v}
}

func normalizeArray(v Value) Value {
	if a, ok := v.([]interface{}); ok && len(a) == 1 {
		return a[0]
	}
	return v
}

// Boolean is the JSONata boolean cast.
func Boolean(v Value) bool {
	switch v := v.(type) {
	case bool:
		return v
	case string:
		return v != ""
	case float64:
		return v != 0
	case []interface{}:
		for _, x := range v {
			if Boolean(x) {
				return true
			}
		}
		return false
	case map[string]interface{}:
		return len(v) > 0
	}
	return false
}

func (ev *Evaluator) eval(n jast.Node, in Value, env *Env) (Value, *Err) {
	ev.Steps++
	if ev.Steps > ev.Max {
		return Undef, unsupported("step budget exceeded")
	}
	v, err := ev.eval1(n, in, env)
	if err != nil {
		return Undef, err
	}
	if s, ok := v.(*Seq); ok {
		v = s.collapse()
	}
	return v, nil
}

func (ev *Evaluator) eval1(n jast.Node, in Value, env *Env) (Value, *Err) {
	switch n := n.(type) {
	case *jast.Str:
		return n.V, nil
	case *jast.Num:
		return n.V, nil
	case *jast.Bool:
		return n.V, nil
	case *jast.Null:
		return nil, nil
	case *jast.Regex:
		return Undef, unsupported("regex")
	case *jast.Var:
		if n.Name == "" {
			return in, nil
		}
		return env.Lookup(n.Name), nil
	case *jast.Name:
		return lookupName(n.V, in), nil
	case *jast.Path:
		return ev.evalPath(n, in, env)
	case *jast.Neg:
		v, err := ev.eval(n.X, in, env)
		if err != nil || IsUndef(v) {
			return Undef, err
		}
		f, ok := v.(float64)
		if !ok {
			return Undef, evalErr(ErrNonNumberRHS)
		}
		return -f, nil
	case *jast.Range:
		return ev.evalRange(n, in, env)
	case *jast.Array:
		out := []interface{}{}
		for _, it := range n.Items {
			v, err := ev.eval(it, in, env)
			if err != nil {
				return Undef, err
			}
			if IsUndef(v) {
				continue
			}
			if _, isArr := it.(*jast.Array); isArr {
				out = append(out, v)
			} else {
				out = append(out, arrayify(v)...)
			}
		}
		return out, nil
	case *jast.Object:
		return ev.evalObject(n.Pairs, in, env)
	case *jast.Block:
		env = NewEnv(env)
		var res Value = Undef
		for _, e := range n.Exprs {
			var err *Err
			res, err = ev.eval(e, in, env)
			if err != nil {
				return Undef, err
			}
		}
		return res, nil
	case *jast.Cond:
		c, err := ev.eval(n.If, in, env)
		if err != nil {
			return Undef, err
		}
		if Boolean(c) {
			return ev.eval(n.Then, in, env)
		}
		if n.Else != nil {
			return ev.eval(n.Else, in, env)
		}
		return Undef, nil
	case *jast.Assign:
		v, err := ev.eval(n.Val, in, env)
		if err != nil {
			return Undef, err
		}
		env.Bind(n.Name, v)
		return v, nil
	case *jast.Wild:
		s := &Seq{}
		walkValues(in, func(v Value) { appendWildcard(s, v) })
		return s, nil
	case *jast.Desc:
		s := &Seq{}
		recurseDesc(s, in)
		return s, nil
	case *jast.Group:
		if p, ok := n.X.(*jast.Path); ok {
			// the items of a path are grouped as the path selects them: a single
			// item that is an array (a constructor unit) is one item, not the list
			v, err := ev.evalPath(p, in, env)
			if err != nil {
				return Undef, err
			}
			if sq, ok := v.(*Seq); ok {
				v = append([]interface{}{}, sq.Items...)
			}
			return ev.evalObject(n.Pairs, v, env)
		}
		items, err := ev.eval(n.X, in, env)
		if err != nil {
			return Undef, err
		}
		return ev.evalObject(n.Pairs, items, env)
	case *jast.Pred:
		return ev.evalPred(n, in, env)
	case *jast.Sort:
		return ev.evalSort(n, in, env)
	case *jast.Lambda:
		f := &Func{Kind: "lambda", Name: "lambda", Params: n.Params, Body: n.Body, Ctx: in, Env: env}
		if n.Sig != "" {
			ps, ok := ParseSig(n.Sig)
			if !ok {
				return Undef, unsupported("signature " + n.Sig)
			}
			f.Typed = true
			f.Sig = ps
		}
		return f, nil
	case *jast.Transform:
		return &Func{Kind: "transform", Name: "transform", T: n, Env: env}, nil
	case *jast.Call:
		return ev.evalCall(n, in, env)
	case *jast.Apply:
		return ev.evalApply(n, in, env)
	case *jast.Bin:
		return ev.evalBin(n, in, env)
	}
	return Undef, unsupported(fmt.Sprintf("node %T", n))
}

// ---------------------------------------------------------------- paths

func lookupName(name string, data Value) Value {
	switch d := data.(type) {
	case map[string]interface{}:
		if v, ok := d[name]; ok {
			return v
		}
		return Undef
	case []interface{}:
		s := &Seq{}
		for _, e := range d {
			r := lookupName(name, e)
			switch r := r.(type) {
			case undefT:
			case *Seq:
				s.Items = append(s.Items, r.Items...)
			case []interface{}:
				s.Items = append(s.Items, r...)
			default:
				s.Items = append(s.Items, r)
			}
		}
		return s
	}
	return Undef
}

func sortedKeys(m map[string]interface{}) []string {
	ks := make([]string, 0, len(m))
	for k := range m {
		ks = append(ks, k)
	}
	sort.Strings(ks)
	return ks
}

func walkValues(v Value, fn func(Value)) {
	switch v := v.(type) {
	case []interface{}:
		for _, x := range v {
			fn(x)
		}
	case map[string]interface{}:
		for _, k := range sortedKeys(v) {
			fn(v[k])
		}
	}
}

func flattenDeep(out *[]Value, v Value) {
	if a, ok := v.([]interface{}); ok {
		for _, x := range a {
			flattenDeep(out, x)
		}
		return
	}
	if !IsUndef(v) {
		*out = append(*out, v)
	}
}

func appendWildcard(s *Seq, v Value) {
	if isArray(v) {
		flattenDeep(&s.Items, v)
		return
	}
	if !IsUndef(v) {
		s.Items = append(s.Items, v)
	}
}

func recurseDesc(s *Seq, v Value) {
	if !IsUndef(v) && !isArray(v) {
		s.Items = append(s.Items, v)
	}
	walkValues(v, func(x Value) { recurseDesc(s, x) })
}

func (ev *Evaluator) evalPath(p *jast.Path, in Value, env *Env) (Value, *Err) {
	if len(p.Steps) == 0 {
		return Undef, nil
	}
	// a variable (or array constructor) head, however filtered or sorted,
	// anchors the path: it is evaluated once against the context item
	var anchored func(n jast.Node, outer bool) bool
	anchored = func(n jast.Node, outer bool) bool {
		switch s := n.(type) {
		case *jast.Var:
			return true
		case *jast.Array:
			return !outer
		case *jast.Pred:
			return anchored(s.X, false)
		case *jast.Group:
			return anchored(s.X, false)
		case *jast.Sort:
			// an order-by sorts the whole sequence selected by the steps to
			// its left (they are inside the node): it is evaluated once
			return true
		case *jast.Path:
			// the sequence of an order-by can be a path that starts with a variable
			return !outer && len(s.Steps) > 0 && anchored(s.Steps[0], false)
		}
		return false
	}
	isVar := anchored(p.Steps[0], true)
	var output Value
	if isVar || !isArray(in) {
		output = []interface{}{in}
	} else {
		output = in
	}
	last := len(p.Steps) - 1
	for i, step := range p.Steps {
		var err *Err
		if _, ok := step.(*jast.Array); ok && i == 0 {
			// evaluated once, against the context item itself
			output, err = ev.eval(step, in, env)
		} else {
			output, err = ev.evalPathStep(step, output, env, i == last)
		}
		if err != nil {
			return Undef, err
		}
		if IsUndef(output) {
			return Undef, nil
		}
		if a, ok := output.([]interface{}); ok && len(a) == 0 {
			return Undef, nil
		}
	}
	if keepsArrays(p) {
		if s, ok := output.(*Seq); ok {
			return &Seq{Items: s.Items, Keep: true}, nil
		}
	}
	return output, nil
}

func (ev *Evaluator) evalPathStep(step jast.Node, data Value, env *Env, last bool) (Value, *Err) {
	var items []interface{}
	switch d := data.(type) {
	case *Seq:
		items = d.Items
	case []interface{}:
		items = d
	}
	var results []Value
	_, isName := step.(*jast.Name)
	for _, it := range items {
		var r Value
		var err *Err
		if isName {
			// what a field name selects from an item that is an array is the
			// sequence of the members' values, each flattened one level: those
			// are the step's results for this item (they are not flattened again)
			r, err = ev.eval1(step, it, env)
			if sq, ok := r.(*Seq); ok && len(sq.Items) == 0 {
				r = Undef
			}
		} else {
			r, err = ev.eval(step, it, env)
		}
		if err != nil {
			return Undef, err
		}
		if !IsUndef(r) {
			results = append(results, r)
		}
	}
	_, isCons := step.(*jast.Array)
	// (what an array constructor makes is one item of the results: a unit)
	// (nor is the sequence a name selects from an array item: its only item can
	// be an array in its own right)
	if last && len(results) == 1 && !isCons {
		if _, isSeq := results[0].(*Seq); !isSeq && isArray(results[0]) {
			return results[0], nil
		}
	}
	s := &Seq{}
	for _, v := range results {
		if sq, ok := v.(*Seq); ok {
			s.Items = append(s.Items, sq.Items...)
			continue
		}
		if a, ok := v.([]interface{}); ok && !isCons {
			s.Items = append(s.Items, a...)
		} else {
			s.Items = append(s.Items, v)
		}
	}
	if len(s.Items) == 0 {
		return Undef, nil
	}
	return s, nil
}

// ---------------------------------------------------------------- predicates, sort

func (ev *Evaluator) evalPred(n *jast.Pred, in Value, env *Env) (Value, *Err) {
	items, err := ev.eval(n.X, in, env)
	if err != nil || IsUndef(items) {
		return Undef, err
	}
	for _, f := range n.Filters {
		arr, err := ev.applyFilter(f, arrayify(items), env)
		if err != nil {
			return Undef, err
		}
		if len(arr) == 0 {
			return Undef, nil
		}
		items = arr
	}
	// a keep-array marker before an order-by that is filtered here belongs to
	// the path as a whole
	if keepsArrays(n.X) {
		return items, nil
	}
	return normalizeArray(items), nil
}

func (ev *Evaluator) applyFilter(f jast.Node, items []interface{}, env *Env) ([]interface{}, *Err) {
	n := len(items)
	out := []interface{}{}
	for i, item := range items {
		res, err := ev.eval(f, item, env)
		if err != nil {
			return nil, err
		}
		if isNum(res) {
			res = []interface{}{res}
		}
		if arr, ok := res.([]interface{}); ok && allNumbers(arr) {
			for _, x := range arr {
				idx := math.Floor(x.(float64))
				if idx < 0 {
					idx += float64(n)
				}
				if idx == float64(i) {
					out = append(out, item)
				}
			}
			continue
		}
		if Boolean(res) {
			out = append(out, item)
		}
	}
	return out, nil
}

func allNumbers(a []interface{}) bool {
	for _, x := range a {
		if !isNum(x) {
			return false
		}
	}
	return true
}

func (ev *Evaluator) evalSort(n *jast.Sort, in Value, env *Env) (Value, *Err) {
	v, err := ev.eval(n.X, in, env)
	if err != nil || IsUndef(v) {
		return Undef, err
	}
	items := arrayify(v)
	type info struct {
		idx  int
		keys []Value
	}
	infos := make([]*info, len(items))
	isNumT := make([]bool, len(n.Terms))
	isStrT := make([]bool, len(n.Terms))
	for i, it := range items {
		keys := make([]Value, len(n.Terms))
		for j, t := range n.Terms {
			keys[j] = Undef
			k, err := ev.eval(t.X, it, env)
			if err != nil {
				return Undef, err
			}
			if IsUndef(k) {
				continue
			}
			switch {
			case isNum(k):
				if isStrT[j] {
					return Undef, evalErr(ErrSortMismatch)
				}
				isNumT[j] = true
			case isStr(k):
				if isNumT[j] {
					return Undef, evalErr(ErrSortMismatch)
				}
				isStrT[j] = true
			default:
				return Undef, evalErr(ErrNonSortable)
			}
			keys[j] = k
		}
		infos[i] = &info{idx: i, keys: keys}
	}
	sort.SliceStable(infos, func(a, b int) bool {
		for t, term := range n.Terms {
			va, vb := infos[a].keys[t], infos[b].keys[t]
			ua, ub := IsUndef(va), IsUndef(vb)
			switch {
			case ua && ub:
				continue
			case ua:
				return false
			case ub:
				return true
			}
			if Eq(va, vb) {
				continue
			}
			if term.Dir == ">" {
				return less(vb, va)
			}
			return less(va, vb)
		}
		return false
	})
	out := make([]interface{}, len(items))
	for i, inf := range infos {
		out[i] = items[inf.idx]
	}
	// the keep-array marker belongs to the path as a whole, also when it is
	// written before the order-by (items[]^(k))
	if keepsArrays(n.X) {
		return out, nil
	}
	return normalizeArray(out), nil
}

func keepsArrays(n jast.Node) bool {
	switch n := n.(type) {
	case *jast.Path:
		return n.Keep || len(n.Steps) > 0 && keepsArrays(n.Steps[0])
	case *jast.Sort:
		return keepsArrays(n.X)
	case *jast.Pred:
		return keepsArrays(n.X)
	}
	return false
}

func less(a, b Value) bool {
	if x, ok := a.(float64); ok {
		if y, ok := b.(float64); ok {
			return x < y
		}
	}
	if x, ok := a.(string); ok {
		if y, ok := b.(string); ok {
			return x < y
		}
	}
	return false
}

// ---------------------------------------------------------------- objects

func (ev *Evaluator) evalObject(pairs [][2]jast.Node, data Value, env *Env) (Value, *Err) {
	var items []interface{}
	if a, ok := data.([]interface{}); ok {
		items = a
	} else if IsUndef(data) {
		items = []interface{}{nil}
	} else {
		items = []interface{}{data}
	}
	type kidx struct {
		pair  int
		items []int
	}
	keys := map[string]*kidx{}
	var order []string
	for i, p := range pairs {
		if s, ok := p[0].(*jast.Str); ok {
			if _, dup := keys[s.V]; dup {
				return Undef, evalErr(ErrDuplicateKey)
			}
			keys[s.V] = &kidx{pair: i}
			order = append(order, s.V)
			continue
		}
		for j, it := range items {
			var kctx Value = it
			if IsUndef(data) {
				kctx = Undef // nothing to group: the key sees no context item
			}
			kv, err := ev.eval(p[0], kctx, env)
			if err != nil {
				return Undef, err
			}
			k, ok := kv.(string)
			if !ok {
				return Undef, evalErr(ErrIllegalKey)
			}
			if ex, ok := keys[k]; ok {
				if ex.pair != i {
					return Undef, evalErr(ErrDuplicateKey)
				}
				ex.items = append(ex.items, j)
				continue
			}
			keys[k] = &kidx{pair: i, items: []int{j}}
			order = append(order, k)
		}
	}
	out := map[string]interface{}{}
	var errs []*Err
	for _, k := range order {
		ix := keys[k]
		ctx := items
		if n := len(ix.items); n != 0 && n != len(items) {
			sub := make([]interface{}, n)
			for a, j := range ix.items {
				sub[a] = items[j]
			}
			ctx = sub
		}
		// a single item is the context itself; with nothing to group, no value
		var cv Value = ctx
		if len(ctx) == 1 {
			cv = ctx[0]
			if IsUndef(data) {
				cv = Undef
			}
		}
		v, err := ev.eval(pairs[ix.pair][1], cv, env)
		if err != nil {
			if err.Class == "unsupported" {
				return Undef, err
			}
			errs = append(errs, err)
			continue
		}
		if !IsUndef(v) {
			out[k] = v
		}
	}
	if len(errs) > 0 {
		// several members may fail; which error the port reports depends on
		// Go map iteration order: any of them is acceptable.
		e := &Err{Class: errs[0].Class, Msg: errs[0].Msg}
		for _, x := range errs {
			e.Alt = append(e.Alt, x.Class)
			e.Alt = append(e.Alt, x.Alt...)
		}
		return Undef, e
	}
	return out, nil
}

// ---------------------------------------------------------------- operators

func (ev *Evaluator) evalRange(n *jast.Range, in Value, env *Env) (Value, *Err) {
	l, err := ev.eval(n.L, in, env)
	if err != nil {
		return Undef, err
	}
	r, err := ev.eval(n.R, in, env)
	if err != nil {
		return Undef, err
	}
	lf, lnum := l.(float64)
	rf, rnum := r.(float64)
	if !IsUndef(l) && !(lnum && lf == math.Trunc(lf)) {
		return Undef, evalErr(ErrNonIntegerLHS)
	}
	if !IsUndef(r) && !(rnum && rf == math.Trunc(rf)) {
		return Undef, evalErr(ErrNonIntegerRHS)
	}
	if IsUndef(l) || IsUndef(r) || lf > rf {
		return Undef, nil
	}
	size := rf - lf + 1
	if size > 10000000 {
		return Undef, evalErr(ErrMaxRangeItems)
	}
	if ev.MaxRange > 0 && size > float64(ev.MaxRange) {
		return Undef, &Err{Class: "unsupported", Msg: "size-bound: range larger than the workload bound"}
	}
	n2 := int(size)
	out := make([]interface{}, n2)
	for i := 0; i < n2; i++ {
		out[i] = lf // the first item is the bound itself (so -0 stays -0)
		lf++
	}
	return out, nil
}

// Eq is JSONata equality.
func Eq(a, b Value) bool {
	switch x := a.(type) {
	case float64:
		y, ok := b.(float64)
		return ok && x == y
	case string:
		y, ok := b.(string)
		return ok && x == y
	case bool:
		y, ok := b.(bool)
		return ok && x == y
	case nil:
		return b == nil
	case []interface{}:
		y, ok := b.([]interface{})
		if !ok || len(x) != len(y) {
			return false
		}
		for i := range x {
			if !deepEq(x[i], y[i]) {
				return false
			}
		}
		return true
	case map[string]interface{}:
		y, ok := b.(map[string]interface{})
		if !ok || len(x) != len(y) {
			return false
		}
		for k, v := range x {
			w, ok := y[k]
			if !ok || !deepEq(v, w) {
				return false
			}
		}
		return true
	case *Func:
		y, ok := b.(*Func)
		return ok && x == y
	}
	return false
}

func deepEq(a, b Value) bool { return Eq(a, b) }

func (ev *Evaluator) evalBin(n *jast.Bin, in Value, env *Env) (Value, *Err) {
	l, err := ev.eval(n.L, in, env)
	if err != nil {
		return Undef, err
	}
	r, err := ev.eval(n.R, in, env)
	if err != nil {
		return Undef, err
	}
	switch n.Op {
	case "+", "-", "*", "/", "%":
		lf, lok := l.(float64)
		rf, rok := r.(float64)
		if !IsUndef(l) && !lok {
			return Undef, evalErr(ErrNonNumberLHS)
		}
		if !IsUndef(r) && !rok {
			return Undef, evalErr(ErrNonNumberRHS)
		}
		if IsUndef(l) || IsUndef(r) {
			return Undef, nil
		}
		var x float64
		switch n.Op {
		case "+":
			x = lf + rf
		case "-":
			x = lf - rf
		case "*":
			x = lf * rf
		case "/":
			x = lf / rf
		case "%":
			x = math.Mod(lf, rf)
		}
		if math.IsInf(x, 0) {
			return Undef, evalErr(ErrNumberInf)
		}
		if math.IsNaN(x) {
			return Undef, evalErr(ErrNumberNaN)
		}
		return x, nil
	case "=", "!=", "<", "<=", ">", ">=", "in":
		ordered := n.Op != "=" && n.Op != "!=" && n.Op != "in"
		if ordered {
			lc := isNum(l) || isStr(l)
			rc := isNum(r) || isStr(r)
			if !IsUndef(l) && !lc {
				return Undef, evalErr(ErrNonComparableLHS)
			}
			if !IsUndef(r) && !rc {
				return Undef, evalErr(ErrNonComparableRHS)
			}
			if !IsUndef(l) && !IsUndef(r) && isNum(l) != isNum(r) {
				return Undef, evalErr(ErrTypeMismatch)
			}
		}
		if IsUndef(l) || IsUndef(r) {
			return false, nil
		}
		switch n.Op {
		case "=":
			return Eq(l, r), nil
		case "!=":
			return !Eq(l, r), nil
		case "<":
			return less(l, r), nil
		case "<=":
			return less(l, r) || Eq(l, r), nil
		case ">":
			return !(less(l, r) || Eq(l, r)), nil
		case ">=":
			return !less(l, r), nil
		case "in":
			for _, x := range arrayify(r) {
				if Eq(l, x) {
					return true, nil
				}
			}
			return false, nil
		}
	case "and":
		return Boolean(l) && Boolean(r), nil
	case "or":
		return Boolean(l) || Boolean(r), nil
	case "&":
		ls, e1 := stringify(l)
		if e1 != nil {
			return Undef, e1
		}
		rs, e2 := stringify(r)
		if e2 != nil {
			return Undef, e2
		}
		return ls + rs, nil
	}
	return Undef, unsupported("operator " + n.Op)
}

// stringify is the string form used by & (undefined -> "").
func stringify(v Value) (string, *Err) {
	if IsUndef(v) {
		return "", nil
	}
	return StringOf(v)
}

// StringOf is $string: strings unchanged, functions "", everything else its
// JSON text as Go's encoding/json renders it.
func StringOf(v Value) (string, *Err) {
	switch x := v.(type) {
	case string:
		return x, nil
	case *Func:
		return "", nil
	case float64:
		if math.IsNaN(x) || math.IsInf(x, 0) {
			return "", otherErr("nan/inf")
		}
	}
	var sb strings.Builder
	enc := json.NewEncoder(&sb)
	enc.SetEscapeHTML(false) // the string form keeps < > & as they are
	if err := enc.Encode(v); err != nil {
		return "", otherErr(err.Error())
	}
	return strings.TrimSpace(sb.String()), nil
}
