package refeval

import (
	"math/big"
	"math"
	"reflect"
	"regexp"
	"sort"
	"strconv"
	"strings"
	"unicode/utf8"

	"verif/harness/jast"
)

// ---------------------------------------------------------------- signatures

// Param is one parameter of a lambda signature.
type Param struct {
	Types string // set of type letters, e.g. "n", "ns", "x"
	Opt   byte   // 0, '?', '+', '-'
	Sub   []Param
}

// ParseSig parses the text between < and > (return type after ':' ignored).
func ParseSig(s string) ([]Param, bool) {
	ps, rest, ok := parseParams(s)
	if !ok {
		return nil, false
	}
	if rest != "" && rest[0] != ':' {
		return nil, false
	}
	return ps, true
}

func parseParams(s string) ([]Param, string, bool) {
	var ps []Param
	for len(s) > 0 {
		c := s[0]
		switch {
		case c == ':':
			return ps, s, true
		case strings.IndexByte("nsblaofjx", c) >= 0:
			ps = append(ps, Param{Types: string(c)})
			s = s[1:]
		case c == '(':
			end := strings.IndexByte(s, ')')
			if end < 0 {
				return nil, "", false
			}
			ps = append(ps, Param{Types: s[1:end]})
			s = s[end+1:]
		case c == '?' || c == '+' || c == '-':
			if len(ps) == 0 {
				return nil, "", false
			}
			ps[len(ps)-1].Opt = c
			s = s[1:]
		case c == '<':
			if len(ps) == 0 {
				return nil, "", false
			}
			depth := 0
			end := -1
			for i := 0; i < len(s); i++ {
				if s[i] == '<' {
					depth++
				} else if s[i] == '>' {
					depth--
					if depth == 0 {
						end = i
						break
					}
				}
			}
			if end < 0 {
				return nil, "", false
			}
			sub, _, ok := parseParams(s[1:end])
			if !ok {
				return nil, "", false
			}
			ps[len(ps)-1].Sub = sub
			s = s[end+1:]
		default:
			return nil, "", false
		}
	}
	return ps, "", true
}

func validArgType(arg Value, p Param) bool {
	has := func(c byte) bool { return strings.IndexByte(p.Types, c) >= 0 }
	if has('x') {
		return true
	}
	j := has('j')
	switch a := arg.(type) {
	case string:
		return j || has('s')
	case float64:
		return j || has('n')
	case bool:
		return j || has('b')
	case *Func:
		return has('f')
	case nil:
		return j || has('l')
	case []interface{}:
		if j {
			return true
		}
		if has('a') {
			if len(p.Sub) == 0 {
				return true
			}
			for _, x := range a {
				if !validArgType(x, p.Sub[0]) {
					return false
				}
			}
			return true
		}
		return false
	case map[string]interface{}:
		return j || has('o')
	}
	return false
}

// ---------------------------------------------------------------- calls

func (ev *Evaluator) evalCall(n *jast.Call, in Value, env *Env) (Value, *Err) {
	partial := false
	for _, a := range n.Args {
		if _, ok := a.(*jast.Placeholder); ok {
			partial = true
		}
	}
	fv, err := ev.eval(n.Fn, in, env)
	if err != nil {
		return Undef, err
	}
	f, ok := fv.(*Func)
	if partial {
		if !ok {
			return Undef, evalErr(ErrNonCallablePartial)
		}
		pf := &Func{Kind: "partial", Name: f.Name + "_partial", Fn: f, Args: n.Args, Ctx: in, Env: env}
		if !ev.PartialArgsAtCall {
			// f(?, x) is a function of its placeholders: the given arguments are
			// evaluated here, where the partial application is written
			pf.Bound = make([]Value, len(n.Args))
			for i, a := range n.Args {
				if _, ok := a.(*jast.Placeholder); ok {
					continue
				}
				v, err := ev.eval(a, in, env)
				if err != nil {
					return Undef, err
				}
				pf.Bound[i] = v
			}
		}
		ev.PartialsMade++
		return pf, nil
	}
	if !ok {
		return Undef, evalErr(ErrNonCallable)
	}
	return ev.callWithArgs(f, n.Args, in, env)
}

// callWithArgs is evalFunctionCall after the callee has been resolved.
func (ev *Evaluator) callWithArgs(f *Func, args []jast.Node, in Value, env *Env) (Value, *Err) {
	argv := make([]Value, len(args))
	for i, a := range args {
		v, err := ev.eval(a, in, env)
		if err != nil {
			return Undef, err
		}
		argv[i] = v
	}
	return ev.Call(f, argv, in)
}

// Call applies a function value. ctx is the context item of the call site for
// built-ins called directly; Undef for indirect calls.
func (ev *Evaluator) Call(f *Func, argv []Value, ctx Value) (Value, *Err) {
	ev.Steps++
	if ev.Steps > ev.Max {
		return Undef, unsupported("step budget exceeded")
	}
	switch f.Kind {
	case "builtin":
		return ev.callBuiltin(f.B, argv, ctx)
	case "lambda":
		return ev.callLambda(f, argv)
	case "partial":
		args := make([]Value, len(f.Args))
		for i, a := range f.Args {
			if _, ok := a.(*jast.Placeholder); ok {
				if len(argv) > 0 {
					args[i] = argv[0]
					argv = argv[1:]
				} else {
					args[i] = Undef
				}
				continue
			}
			if f.Bound != nil {
				args[i] = f.Bound[i]
				continue
			}
			v, err := ev.eval(a, f.Ctx, f.Env)
			if err != nil {
				return Undef, err
			}
			args[i] = v
		}
		return ev.Call(f.Fn, args, Undef)
	case "chain":
		var v Value = Undef
		if len(argv) > 0 {
			v = argv[0]
		}
		for _, g := range f.Chain {
			var err *Err
			v, err = ev.Call(g, []Value{v}, Undef)
			if err != nil {
				return Undef, err
			}
		}
		return v, nil
	case "transform":
		return ev.callTransform(f, argv)
	}
	return Undef, unsupported("call of " + f.Kind)
}

func (ev *Evaluator) callLambda(f *Func, argv []Value) (Value, *Err) {
	if f.Typed {
		var err *Err
		orig := argv
		argv, err = f.fitSignature(argv)
		if err != nil {
			if f.FitsDeclaratively(orig) {
				if f.canonicalOptions() {
					ev.FittingCallsRejected++
				} else {
					ev.FittingCallsRejectedNonCanonical++
				}
			}
			return Undef, err
		}
	}
	env := NewEnv(f.Env)
	for i, name := range f.Params {
		var v Value = Undef
		if i < len(argv) {
			v = argv[i]
		}
		env.Bind(name, v)
	}
	return ev.eval(f.Body, f.Ctx, env)
}

// FitsDeclaratively reports whether the argument list fits the signature in
// the declarative sense of the property: there is an assignment of the
// arguments, in order, to the parameters in which a plain parameter takes one
// argument, a '?' parameter one or none, a '-' parameter one or (when the
// context item has the parameter's type) none, a '+' parameter one or more,
// and every argument has its parameter's type ('no value' has every type).
func (f *Func) FitsDeclaratively(argv []Value) bool {
	ps := f.Sig
	ok := func(p Param, a Value) bool {
		if IsUndef(a) {
			return true
		}
		if p.Types == "a" {
			a = arrayify(a)
		}
		return validArgType(a, p)
	}
	var match func(pi, ai int) bool
	match = func(pi, ai int) bool {
		if pi == len(ps) {
			return ai == len(argv)
		}
		p := ps[pi]
		switch p.Opt {
		case '?':
			if match(pi+1, ai) {
				return true
			}
			return ai < len(argv) && ok(p, argv[ai]) && match(pi+1, ai+1)
		case '-':
			if ai < len(argv) && ok(p, argv[ai]) && match(pi+1, ai+1) {
				return true
			}
			return !IsUndef(f.Ctx) && ok(p, f.Ctx) && match(pi+1, ai)
		case '+':
			for k := ai; k < len(argv) && ok(p, argv[k]); k++ {
				if match(pi+1, k+1) {
					return true
				}
			}
			return false
		}
		return ai < len(argv) && ok(p, argv[ai]) && match(pi+1, ai+1)
	}
	return match(0, 0)
}

// canonicalOptions: '-' only on the first parameter, '?' only on a suffix of
// the parameters, '+' only on the last one. The port honours the options in
// these places only.
func (f *Func) canonicalOptions() bool {
	ps := f.Sig
	seenOpt := false
	for i, p := range ps {
		switch p.Opt {
		case '-':
			if i != 0 {
				return false
			}
		case '+':
			if i != len(ps)-1 {
				return false
			}
		}
		if p.Opt == '?' {
			seenOpt = true
		} else if seenOpt && !(p.Opt == '+' && i == len(ps)-1) {
			return false
		}
	}
	return true
}

// fitSignature mirrors the port's positional algorithm: the context is
// inserted when there are fewer arguments than parameters and the first
// parameter is contextable; if the arguments do not fit that way, the other
// choice is tried before the first error is returned.
func (f *Func) fitSignature(argv []Value) ([]Value, *Err) {
	ps := f.Sig
	contextable := len(ps) > 0 && ps[0].Opt == '-'
	use := contextable && len(argv) < len(ps)
	out, err := f.fitSignatureWith(argv, use)
	if err != nil && contextable {
		if out2, err2 := f.fitSignatureWith(argv, !use); err2 == nil {
			return out2, nil
		}
	}
	return out, err
}

func (f *Func) fitSignatureWith(argv []Value, useCtx bool) ([]Value, *Err) {
	ps := f.Sig
	pc := len(ps)
	if useCtx {
		argv = append([]Value{f.Ctx}, argv...)
	}
	for i := len(argv); i < pc; i++ {
		if ps[i].Opt != '?' {
			break
		}
		argv = append(argv, Undef)
	}
	n := len(argv)
	isVar := pc > 0 && ps[pc-1].Opt == '+'
	if n < pc || (n > pc && !isVar) {
		return nil, argCount()
	}
	argv = append([]Value{}, argv...)
	for i, a := range argv {
		if IsUndef(a) {
			continue
		}
		var p Param
		if i < pc {
			p = ps[i]
		} else if pc > 0 {
			p = ps[pc-1]
		}
		if p.Types == "a" {
			a = arrayify(a)
			argv[i] = a
		}
		if !validArgType(a, p) {
			return nil, argType(i + 1)
		}
	}
	if isVar {
		rest := make([]interface{}, 0, n-pc+1)
		for _, a := range argv[pc-1:] {
			// an array has no place for 'no value' (as in an array constructor)
			if !IsUndef(a) {
				rest = append(rest, a)
			}
		}
		argv = append(append([]Value{}, argv[:pc-1]...), rest)
	}
	return argv, nil
}

func (ev *Evaluator) evalApply(n *jast.Apply, in Value, env *Env) (Value, *Err) {
	if c, ok := n.R.(*jast.Call); ok {
		partial := false
		for _, a := range c.Args {
			if _, ok := a.(*jast.Placeholder); ok {
				partial = true
			}
		}
		if !partial {
			fv, err := ev.eval(c.Fn, in, env)
			if err != nil {
				return Undef, err
			}
			f, ok := fv.(*Func)
			if !ok {
				return Undef, evalErr(ErrNonCallable)
			}
			args := append([]jast.Node{n.L}, c.Args...)
			return ev.callWithArgs(f, args, in, env)
		}
	}
	l, err := ev.eval(n.L, in, env)
	if err != nil {
		return Undef, err
	}
	r, err := ev.eval(n.R, in, env)
	if err != nil {
		return Undef, err
	}
	f2, ok := r.(*Func)
	if !ok {
		return Undef, evalErr(ErrNonCallableApply)
	}
	f1, isF := l.(*Func)
	if !isF {
		// v ~> $f is the call $f(v): same context
		return ev.Call(f2, []Value{l}, in)
	}
	return &Func{Kind: "chain", Name: "", Chain: []*Func{f1, f2}}, nil
}

// ---------------------------------------------------------------- transform

// DeepCopy copies plain data the way the port's clone does (through JSON):
// functions become empty strings.
func DeepCopy(v Value) Value {
	switch x := v.(type) {
	case []interface{}:
		out := make([]interface{}, len(x))
		for i, e := range x {
			out[i] = DeepCopy(e)
		}
		return out
	case map[string]interface{}:
		out := make(map[string]interface{}, len(x))
		for k, e := range x {
			out[k] = DeepCopy(e)
		}
		return out
	case *Func:
		return ""
	}
	return v
}

// CopyContainers copies objects and arrays and shares every other value
// (functions included): what a transform does with the members it inserts.
func CopyContainers(v Value) Value {
	switch x := v.(type) {
	case []interface{}:
		out := make([]interface{}, len(x))
		for i, e := range x {
			out[i] = CopyContainers(e)
		}
		return out
	case map[string]interface{}:
		out := make(map[string]interface{}, len(x))
		for k, e := range x {
			out[k] = CopyContainers(e)
		}
		return out
	}
	return v
}

func collectMaps(v Value, set map[uintptr]bool) {
	switch x := v.(type) {
	case []interface{}:
		for _, e := range x {
			collectMaps(e, set)
		}
	case map[string]interface{}:
		set[reflect.ValueOf(x).Pointer()] = true
		for _, e := range x {
			collectMaps(e, set)
		}
	}
}

func (ev *Evaluator) callTransform(f *Func, argv []Value) (Value, *Err) {
	if len(argv) != 1 {
		return Undef, argCount()
	}
	arg := argv[0]
	if IsUndef(arg) {
		return Undef, nil
	}
	if !isMap(arg) && !isArray(arg) {
		return Undef, argType(1)
	}
	obj := CopyContainers(arg)
	inside := map[uintptr]bool{}
	collectMaps(obj, inside)
	items, err := ev.eval(f.T.Pattern, obj, f.Env)
	if err != nil {
		return Undef, err
	}
	for _, it := range arrayify(items) {
		m, ok := it.(map[string]interface{})
		if !ok {
			continue
		}
		mine := inside[reflect.ValueOf(m).Pointer()]
		if !mine {
			// an object the pattern selected outside the copy (via $$ or a
			// variable): it is not part of the result and must stay untouched
			ev.OutsideWrites++
			continue
		}
		upd, err := ev.eval(f.T.Update, m, f.Env)
		if err != nil {
			return Undef, err
		}
		if !IsUndef(upd) {
			um, ok := upd.(map[string]interface{})
			if !ok {
				return Undef, evalErr(ErrIllegalUpdate)
			}
			if mine {
				// members are inserted by value (a copy): the update may refer
				// to the object itself
				for k, v := range CopyContainers(um).(map[string]interface{}) {
					m[k] = v
				}
			} else if len(um) > 0 {
				ev.OutsideWrites++
			}
		}
		if f.T.Delete != nil {
			del, err := ev.eval(f.T.Delete, m, f.Env)
			if err != nil {
				return Undef, err
			}
			if !IsUndef(del) {
				ds := arrayify(del)
				for _, d := range ds {
					if !isStr(d) {
						return Undef, evalErr(ErrIllegalDelete)
					}
				}
				for _, d := range ds {
					if mine {
						delete(m, d.(string))
					} else if _, ok := m[d.(string)]; ok {
						ev.OutsideWrites++
					}
				}
			}
		}
	}
	return obj, nil
}

// ---------------------------------------------------------------- built-ins

// Builtin models a Go-implemented library function: parameter kinds, handlers
// and the definition.
type Builtin struct {
	Name     string
	Params   []string // str num int bool any fn strfn snb; suffix ? = Optional; "any..." variadic
	UndefArg int      // index checked by the undefined handler, -1 none, -2 = append's handler
	Ctx      func(argv []Value) bool
	Impl     func(ev *Evaluator, a []Value) (Value, *Err)
}

var base *Env

func baseEnv() *Env {
	if base == nil {
		base = NewEnv(nil)
		for _, b := range builtins() {
			bb := b
			base.Bind(b.Name, &Func{Kind: "builtin", Name: b.Name, B: bb})
		}
	}
	return base
}

var reSpace = regexp.MustCompile(`\s+`)
var reNumber = regexp.MustCompile(`^-?[0-9]+(\.[0-9]+)?([Ee][-+]?[0-9]+)?$`)

func ctxArgc(n int) func([]Value) bool { return func(a []Value) bool { return len(a) == n } }

func (ev *Evaluator) callBuiltin(b *Builtin, argv []Value, ctx Value) (Value, *Err) {
	argc := len(argv)
	_ = argc
	if b.Ctx != nil && b.Ctx(argv) {
		argv = append([]Value{ctx}, argv...)
	}
	switch {
	case b.UndefArg >= 0:
		if len(argv) > b.UndefArg && IsUndef(argv[b.UndefArg]) {
			return Undef, nil
		}
	case b.UndefArg == -2:
		if len(argv) == 2 && IsUndef(argv[0]) && IsUndef(argv[1]) {
			return Undef, nil
		}
	}
	pc := len(b.Params)
	variadic := pc > 0 && strings.HasSuffix(b.Params[pc-1], "...")
	argv = append([]Value{}, argv...)
	for i := len(argv); i < pc; i++ {
		if !strings.HasSuffix(b.Params[i], "?") {
			break
		}
		argv = append(argv, Undef)
	}
	if variadic && len(argv) < pc-1 {
		return Undef, argCount()
	}
	if !variadic && len(argv) != pc {
		return Undef, argCount()
	}
	for i, a := range argv {
		j := i
		if j >= pc {
			j = pc - 1
		}
		kind := strings.TrimSuffix(strings.TrimSuffix(b.Params[j], "..."), "?")
		opt := strings.HasSuffix(b.Params[j], "?")
		if IsUndef(a) {
			if opt || kind == "any" {
				continue
			}
			return Undef, argType(i + 1)
		}
		ok := false
		switch kind {
		case "any":
			ok = true
		case "str":
			ok = isStr(a)
		case "num":
			ok = isNum(a)
		case "int":
			if f, isn := a.(float64); isn {
				ok = true
				argv[i] = math.Trunc(f)
			}
		case "bool":
			_, ok = a.(bool)
		case "fn":
			ok = isFunc(a)
		case "strfn":
			ok = isStr(a) || isFunc(a)
		case "snb":
			_, isb := a.(bool)
			ok = isb || isStr(a) || isNum(a)
		}
		if !ok {
			return Undef, argType(i + 1)
		}
	}
	return b.Impl(ev, argv)
}

func num(v Value) float64 { f, _ := v.(float64); return f }
func str(v Value) string  { s, _ := v.(string); return s }

func forceArray(v Value) ([]interface{}, bool) {
	if IsUndef(v) {
		return nil, false
	}
	if a, ok := v.([]interface{}); ok {
		return a, true
	}
	return []interface{}{v}, true
}

func clamp(n, lo, hi int) int {
	if n < lo {
		return lo
	}
	if n > hi {
		return hi
	}
	return n
}

func aggregate(name string, v Value, f func([]float64) (Value, *Err)) (Value, *Err) {
	a, ok := v.([]interface{})
	if !ok {
		if n, isn := v.(float64); isn {
			return n, nil
		}
		return Undef, otherErr(name + " non-array")
	}
	ns := make([]float64, len(a))
	for i, x := range a {
		n, isn := x.(float64)
		if !isn {
			return Undef, otherErr(name + " non-number")
		}
		ns[i] = n
	}
	return f(ns)
}

func finite(x float64) (Value, *Err) {
	if math.IsInf(x, 0) || math.IsNaN(x) {
		return Undef, otherErr("non-finite aggregate")
	}
	return x, nil
}

// distinctKey mirrors value equality: numbers, strings, booleans and null by
// value, arrays and objects by their JSON text.
func distinctKey(v Value) interface{} {
	switch x := v.(type) {
	case float64, string, bool, nil:
		return x
	case *Func:
		return x
	}
	s, _ := StringOf(v)
	return [1]string{s}
}

func runeSubstr(s string, start, n int) string {
	r := []rune(s)
	if start > len(r) {
		start = len(r)
	}
	end := start + n
	if end > len(r) {
		end = len(r)
	}
	return string(r[start:end])
}

func keysOf(v Value) []string {
	switch x := v.(type) {
	case map[string]interface{}:
		return sortedKeys(x)
	case []interface{}:
		seen := map[string]bool{}
		var out []string
		for _, e := range x {
			for _, k := range keysOf(e) {
				if !seen[k] {
					seen[k] = true
					out = append(out, k)
				}
			}
		}
		return out
	}
	return nil
}

func spread(v Value) Value {
	switch x := v.(type) {
	case map[string]interface{}:
		out := []interface{}{}
		for _, k := range sortedKeys(x) {
			out = append(out, map[string]interface{}{k: x[k]})
		}
		return out
	case []interface{}:
		out := []interface{}{}
		for _, e := range x {
			r := spread(e)
			if a, ok := r.([]interface{}); ok {
				out = append(out, a...)
			} else if !IsUndef(r) && r != nil {
				out = append(out, r)
			}
		}
		return out
	}
	return v
}

func builtins() []*Builtin {
	c0 := ctxArgc(0)
	c1 := ctxArgc(1)
	bs := []*Builtin{
		{"string", []string{"any"}, 0, c0, func(ev *Evaluator, a []Value) (Value, *Err) {
			s, err := StringOf(a[0])
			if err != nil {
				return Undef, err
			}
			return s, nil
		}},
		{"length", []string{"str"}, 0, c0, func(ev *Evaluator, a []Value) (Value, *Err) {
			return float64(utf8.RuneCountInString(str(a[0]))), nil
		}},
		{"uppercase", []string{"str"}, 0, c0, func(ev *Evaluator, a []Value) (Value, *Err) { return strings.ToUpper(str(a[0])), nil }},
		{"lowercase", []string{"str"}, 0, c0, func(ev *Evaluator, a []Value) (Value, *Err) { return strings.ToLower(str(a[0])), nil }},
		{"trim", []string{"str"}, 0, c0, func(ev *Evaluator, a []Value) (Value, *Err) {
			return strings.TrimSpace(reSpace.ReplaceAllString(str(a[0]), " ")), nil
		}},
		{"substring", []string{"str", "int", "int?"}, 0, func(a []Value) bool {
			switch len(a) {
			case 1:
				return isNum(a[0])
			case 2:
				return isNum(a[0]) && isNum(a[1])
			}
			return false
		}, func(ev *Evaluator, a []Value) (Value, *Err) {
			s := str(a[0])
			n := utf8.RuneCountInString(s)
			start := int(num(a[1]))
			if !IsUndef(a[2]) && num(a[2]) <= 0 || start >= n {
				return "", nil
			}
			if start < 0 {
				start += n
			}
			if start < 0 {
				start = 0
			}
			l := n
			if !IsUndef(a[2]) {
				l = int(num(a[2]))
			}
			return runeSubstr(s, start, l), nil
		}},
		{"substringBefore", []string{"str", "str"}, 0, func(a []Value) bool { return len(a) == 1 && isStr(a[0]) }, func(ev *Evaluator, a []Value) (Value, *Err) {
			s, sub := str(a[0]), str(a[1])
			if i := strings.Index(s, sub); i >= 0 {
				return s[:i], nil
			}
			return s, nil
		}},
		{"substringAfter", []string{"str", "str"}, 0, func(a []Value) bool { return len(a) == 1 && isStr(a[0]) }, func(ev *Evaluator, a []Value) (Value, *Err) {
			s, sub := str(a[0]), str(a[1])
			if i := strings.Index(s, sub); i >= 0 {
				return s[i+len(sub):], nil
			}
			return s, nil
		}},
		{"pad", []string{"str", "int", "str?"}, 0, func(a []Value) bool {
			switch len(a) {
			case 1:
				return isNum(a[0])
			case 2:
				return isNum(a[0]) && isStr(a[1])
			}
			return false
		}, func(ev *Evaluator, a []Value) (Value, *Err) {
			s := []rune(str(a[0]))
			w := int(num(a[1]))
			aw := w
			if aw < 0 {
				aw = -aw
			}
			if aw > 10000 {
				return Undef, unsupported("size-bound: pad width")
			}
			n := aw - len(s)
			if n <= 0 {
				return string(s), nil
			}
			pad := []rune(" ")
			if !IsUndef(a[2]) && str(a[2]) != "" {
				pad = []rune(str(a[2]))
			}
			fill := make([]rune, n)
			for i := range fill {
				fill[i] = pad[i%len(pad)]
			}
			if w < 0 {
				return string(fill) + string(s), nil
			}
			return string(s) + string(fill), nil
		}},
		{"split", []string{"str", "strfn", "int?"}, 0, func(a []Value) bool {
			switch len(a) {
			case 1:
				return isStr(a[0]) || isFunc(a[0])
			case 2:
				return (isStr(a[0]) || isFunc(a[0])) && isNum(a[1])
			}
			return false
		}, func(ev *Evaluator, a []Value) (Value, *Err) {
			sep, ok := a[1].(string)
			if !ok {
				return Undef, unsupported("regex split")
			}
			lim := -1
			if !IsUndef(a[2]) {
				lim = int(num(a[2]))
				if lim < 0 {
					return Undef, otherErr("split limit")
				}
			}
			parts := strings.Split(str(a[0]), sep)
			if lim >= 0 && lim < len(parts) {
				parts = parts[:lim]
			}
			out := make([]interface{}, len(parts))
			for i, p := range parts {
				out[i] = p
			}
			return out, nil
		}},
		{"contains", []string{"str", "strfn"}, 0, c1, func(ev *Evaluator, a []Value) (Value, *Err) {
			p, ok := a[1].(string)
			if !ok {
				return Undef, unsupported("regex contains")
			}
			return strings.Contains(str(a[0]), p), nil
		}},
		{"join", []string{"any", "str?"}, 0, nil, func(ev *Evaluator, a []Value) (Value, *Err) {
			sep := ""
			if !IsUndef(a[1]) {
				sep = str(a[1])
			}
			arr, ok := a[0].([]interface{})
			if ok {
				parts := make([]string, len(arr))
				for i, x := range arr {
					s, iss := x.(string)
					if !iss {
						ok = false
						break
					}
					parts[i] = s
				}
				if ok {
					return strings.Join(parts, sep), nil
				}
			}
			if s, iss := a[0].(string); iss {
				return s, nil
			}
			return Undef, otherErr("join")
		}},
		{"number", []string{"snb"}, 0, c0, func(ev *Evaluator, a []Value) (Value, *Err) {
			switch x := a[0].(type) {
			case bool:
				if x {
					return 1.0, nil
				}
				return 0.0, nil
			case float64:
				return x, nil
			}
			s := str(a[0])
			if reNumber.MatchString(s) {
				if f, err := strconv.ParseFloat(s, 64); err == nil {
					return f, nil
				}
			}
			return Undef, otherErr("number: " + s)
		}},
		{"abs", []string{"num"}, 0, c0, func(ev *Evaluator, a []Value) (Value, *Err) { return math.Abs(num(a[0])), nil }},
		{"floor", []string{"num"}, 0, c0, func(ev *Evaluator, a []Value) (Value, *Err) { return math.Floor(num(a[0])), nil }},
		{"ceil", []string{"num"}, 0, c0, func(ev *Evaluator, a []Value) (Value, *Err) { return math.Ceil(num(a[0])), nil }},
		{"power", []string{"num", "num"}, 0, c1, func(ev *Evaluator, a []Value) (Value, *Err) {
			r := math.Pow(num(a[0]), num(a[1]))
			if math.IsInf(r, 0) || math.IsNaN(r) {
				return Undef, otherErr("power")
			}
			return r, nil
		}},
		{"sqrt", []string{"num"}, 0, c0, func(ev *Evaluator, a []Value) (Value, *Err) {
			if num(a[0]) < 0 {
				return Undef, otherErr("sqrt")
			}
			return math.Sqrt(num(a[0])), nil
		}},
		{"sum", []string{"any"}, 0, nil, func(ev *Evaluator, a []Value) (Value, *Err) {
			return aggregate("sum", a[0], func(ns []float64) (Value, *Err) {
				s := 0.0
				for _, n := range ns {
					s += n
				}
				return finite(s)
			})
		}},
		{"max", []string{"any"}, 0, nil, func(ev *Evaluator, a []Value) (Value, *Err) {
			return aggregate("max", a[0], func(ns []float64) (Value, *Err) {
				if len(ns) == 0 {
					return Undef, nil
				}
				m := ns[0]
				for _, n := range ns {
					if n > m {
						m = n
					}
				}
				return m, nil
			})
		}},
		{"min", []string{"any"}, 0, nil, func(ev *Evaluator, a []Value) (Value, *Err) {
			return aggregate("min", a[0], func(ns []float64) (Value, *Err) {
				if len(ns) == 0 {
					return Undef, nil
				}
				m := ns[0]
				for _, n := range ns {
					if n < m {
						m = n
					}
				}
				return m, nil
			})
		}},
		{"average", []string{"any"}, 0, nil, func(ev *Evaluator, a []Value) (Value, *Err) {
			return aggregate("average", a[0], func(ns []float64) (Value, *Err) {
				if len(ns) == 0 {
					return Undef, nil
				}
				s := 0.0
				for _, n := range ns {
					s += n
				}
				if math.IsInf(s, 0) {
					// the total is out of range, the mean need not be: the mean
					// of the exact values, rounded once
					t := new(big.Float).SetPrec(4096)
					for _, n := range ns {
						t.Add(t, new(big.Float).SetPrec(4096).SetFloat64(n))
					}
					t.Quo(t, new(big.Float).SetPrec(4096).SetInt64(int64(len(ns))))
					m, _ := t.Float64()
					return finite(m)
				}
				return finite(s / float64(len(ns)))
			})
		}},
		{"boolean", []string{"any"}, 0, c0, func(ev *Evaluator, a []Value) (Value, *Err) { return Boolean(a[0]), nil }},
		{"not", []string{"any"}, -1, c0, func(ev *Evaluator, a []Value) (Value, *Err) { return !Boolean(a[0]), nil }},
		{"exists", []string{"any"}, -1, nil, func(ev *Evaluator, a []Value) (Value, *Err) { return !IsUndef(a[0]), nil }},
		{"count", []string{"any"}, -1, nil, func(ev *Evaluator, a []Value) (Value, *Err) {
			if arr, ok := a[0].([]interface{}); ok {
				return float64(len(arr)), nil
			}
			if IsUndef(a[0]) {
				return 0.0, nil
			}
			return 1.0, nil
		}},
		{"append", []string{"any", "any"}, -2, nil, func(ev *Evaluator, a []Value) (Value, *Err) {
			if IsUndef(a[1]) {
				return a[0], nil
			}
			if IsUndef(a[0]) {
				return a[1], nil
			}
			out := append([]interface{}{}, arrayify(a[0])...)
			return append(out, arrayify(a[1])...), nil
		}},
		{"reverse", []string{"any"}, 0, nil, func(ev *Evaluator, a []Value) (Value, *Err) {
			arr := arrayify(a[0])
			out := make([]interface{}, len(arr))
			for i, x := range arr {
				out[len(arr)-1-i] = x
			}
			return out, nil
		}},
		{"sort", []string{"any", "fn?"}, 0, nil, func(ev *Evaluator, a []Value) (Value, *Err) {
			arr, ok := a[0].([]interface{})
			if !ok {
				return []interface{}{a[0]}, nil
			}
			if f, isf := a[1].(*Func); isf {
				vals := append([]interface{}{}, arr...)
				return ev.mergeSort(vals, f)
			}
			if allNumbers(arr) {
				out := append([]interface{}{}, arr...)
				sort.SliceStable(out, func(i, j int) bool { return out[i].(float64) < out[j].(float64) })
				return out, nil
			}
			allS := true
			for _, x := range arr {
				if !isStr(x) {
					allS = false
				}
			}
			if allS {
				out := append([]interface{}{}, arr...)
				sort.SliceStable(out, func(i, j int) bool { return out[i].(string) < out[j].(string) })
				return out, nil
			}
			return Undef, otherErr("sort")
		}},
		{"shuffle", []string{"any"}, 0, nil, func(ev *Evaluator, a []Value) (Value, *Err) {
			// some permutation: the model returns the identity; callers only use
			// order-insensitive consumers ($count) or judge by law
			arr, _ := forceArray(a[0])
			return append([]interface{}{}, arr...), nil
		}},
		{"zip", []string{"any..."}, -1, nil, func(ev *Evaluator, a []Value) (Value, *Err) {
			if len(a) == 0 {
				return Undef, otherErr("zip")
			}
			size := 0
			arrs := make([][]interface{}, len(a))
			for i, v := range a {
				arr, ok := forceArray(v)
				if !ok {
					return []interface{}{}, nil
				}
				arrs[i] = arr
				if i == 0 || len(arr) < size {
					size = len(arr)
				}
			}
			out := make([]interface{}, size)
			for i := 0; i < size; i++ {
				in := make([]interface{}, len(arrs))
				for j := range arrs {
					in[j] = arrs[j][i]
				}
				out[i] = in
			}
			return out, nil
		}},
		{"distinct", []string{"any"}, 0, nil, func(ev *Evaluator, a []Value) (Value, *Err) {
			arr, ok := a[0].([]interface{})
			if !ok {
				return a[0], nil
			}
			// by value, with the model's own equality (the definition, not a key)
			out := []interface{}{}
			for _, x := range arr {
				dup := false
				for _, y := range out {
					if Eq(x, y) {
						dup = true
						break
					}
				}
				if !dup {
					out = append(out, x)
				}
			}
			return out, nil
		}},
		{"map", []string{"any", "fn"}, 0, nil, func(ev *Evaluator, a []Value) (Value, *Err) {
			arr, _ := forceArray(a[0])
			f := a[1].(*Func)
			argc := clamp(f.ParamCount(), 0, 3)
			out := []interface{}{}
			for i, x := range arr {
				r, err := ev.Call(f, []Value{x, float64(i), arr}[:argc], Undef)
				if err != nil {
					return Undef, err
				}
				if !IsUndef(r) {
					out = append(out, r)
				}
			}
			return out, nil
		}},
		{"filter", []string{"any", "fn"}, 0, nil, func(ev *Evaluator, a []Value) (Value, *Err) {
			return ev.filter(a[0], a[1].(*Func))
		}},
		{"single", []string{"any", "fn"}, 0, nil, func(ev *Evaluator, a []Value) (Value, *Err) {
			r, err := ev.filter(a[0], a[1].(*Func))
			if err != nil {
				return Undef, err
			}
			arr := r.([]interface{})
			if len(arr) != 1 {
				return Undef, otherErr("single")
			}
			return arr[0], nil
		}},
		{"reduce", []string{"any", "fn", "any?"}, 0, nil, func(ev *Evaluator, a []Value) (Value, *Err) {
			arr, _ := forceArray(a[0])
			f := a[1].(*Func)
			if f.ParamCount() != 2 {
				return Undef, otherErr("reduce arity")
			}
			var res Value = Undef
			i := 0
			if !IsUndef(a[2]) {
				res = a[2]
			} else if len(arr) > 0 {
				res = arr[0]
				i = 1
			}
			for ; i < len(arr); i++ {
				var err *Err
				res, err = ev.Call(f, []Value{res, arr[i]}, Undef)
				if err != nil {
					return Undef, err
				}
			}
			return res, nil
		}},
		{"each", []string{"any", "fn"}, 0, c1, func(ev *Evaluator, a []Value) (Value, *Err) {
			m, ok := a[0].(map[string]interface{})
			if !ok {
				return Undef, otherErr("each")
			}
			f := a[1].(*Func)
			argc := f.ParamCount()
			if argc < 1 || argc > 3 {
				ev.OddObjectCallbacks++
				if ev.RejectOddObjectCallbacks {
					return Undef, otherErr("each arity")
				}
				if argc > 3 {
					argc = 3
				}
			}
			out := []interface{}{}
			for _, k := range sortedKeys(m) {
				r, err := ev.Call(f, []Value{m[k], k, m}[:argc], Undef)
				if err != nil {
					return Undef, err
				}
				if !IsUndef(r) {
					out = append(out, r)
				}
			}
			switch len(out) {
			case 0:
				return Undef, nil
			case 1:
				return out[0], nil
			}
			return out, nil
		}},
		{"sift", []string{"any", "fn"}, 0, c1, func(ev *Evaluator, a []Value) (Value, *Err) {
			m, ok := a[0].(map[string]interface{})
			if !ok {
				return Undef, otherErr("sift")
			}
			f := a[1].(*Func)
			argc := f.ParamCount()
			if argc < 1 || argc > 3 {
				ev.OddObjectCallbacks++
				if ev.RejectOddObjectCallbacks {
					return Undef, otherErr("sift arity")
				}
				if argc > 3 {
					argc = 3
				}
			}
			out := map[string]interface{}{}
			for _, k := range sortedKeys(m) {
				r, err := ev.Call(f, []Value{m[k], k, m}[:argc], Undef)
				if err != nil {
					return Undef, err
				}
				if Boolean(r) {
					out[k] = m[k]
				}
			}
			if len(out) == 0 {
				return Undef, nil
			}
			return out, nil
		}},
		{"keys", []string{"any"}, 0, c0, func(ev *Evaluator, a []Value) (Value, *Err) {
			ks := keysOf(a[0])
			switch len(ks) {
			case 0:
				return Undef, nil
			case 1:
				return ks[0], nil
			}
			out := make([]interface{}, len(ks))
			for i, k := range ks {
				out[i] = k
			}
			return out, nil
		}},
		{"lookup", []string{"any", "str"}, 0, c1, func(ev *Evaluator, a []Value) (Value, *Err) {
			r := lookupName(str(a[1]), a[0])
			if s, ok := r.(*Seq); ok {
				r = s.collapse()
			}
			return r, nil
		}},
		{"spread", []string{"any"}, 0, c0, func(ev *Evaluator, a []Value) (Value, *Err) { return spread(a[0]), nil }},
		{"merge", []string{"any"}, 0, nil, func(ev *Evaluator, a []Value) (Value, *Err) {
			out := map[string]interface{}{}
			switch x := a[0].(type) {
			case map[string]interface{}:
				for k, v := range x {
					out[k] = v // (a null member is a member)
				}
			case []interface{}:
				for _, e := range x {
					m, ok := e.(map[string]interface{})
					if !ok {
						return Undef, otherErr("merge")
					}
					for k, v := range m {
						out[k] = v
					}
				}
			default:
				return Undef, otherErr("merge")
			}
			return out, nil
		}},
		{"type", []string{"any"}, 0, c0, func(ev *Evaluator, a []Value) (Value, *Err) {
			switch a[0].(type) {
			case *Func:
				return "function", nil
			case string:
				return "string", nil
			case float64:
				return "number", nil
			case []interface{}:
				return "array", nil
			case bool:
				return "boolean", nil
			case map[string]interface{}:
				return "object", nil
			case nil:
				return "null", nil
			}
			return Undef, otherErr("type")
		}},
		{"error", []string{"str"}, -1, nil, func(ev *Evaluator, a []Value) (Value, *Err) { return Undef, otherErr("error: " + str(a[0])) }},
	}
	return bs
}

func (ev *Evaluator) filter(v Value, f *Func) (Value, *Err) {
	arr, _ := forceArray(v)
	argc := clamp(f.ParamCount(), 0, 3)
	out := []interface{}{}
	for i, x := range arr {
		r, err := ev.Call(f, []Value{x, float64(i), arr}[:argc], Undef)
		if err != nil {
			return Undef, err
		}
		if Boolean(r) {
			out = append(out, x)
		}
	}
	return out, nil
}

func (ev *Evaluator) mergeSort(vals []interface{}, f *Func) (Value, *Err) {
	if len(vals) < 2 {
		return vals, nil
	}
	pos := len(vals) / 2
	l, err := ev.mergeSort(vals[:pos], f)
	if err != nil {
		return Undef, err
	}
	r, err := ev.mergeSort(vals[pos:], f)
	if err != nil {
		return Undef, err
	}
	lhs, rhs := l.([]interface{}), r.([]interface{})
	out := make([]interface{}, 0, len(lhs)+len(rhs))
	for len(lhs) > 0 && len(rhs) > 0 {
		sw, err := ev.Call(f, []Value{lhs[0], rhs[0]}, Undef)
		if err != nil {
			return Undef, err
		}
		b, ok := sw.(bool)
		if !ok {
			return Undef, otherErr("sort comparator")
		}
		if b {
			out = append(out, rhs[0])
			rhs = rhs[1:]
		} else {
			out = append(out, lhs[0])
			lhs = lhs[1:]
		}
	}
	out = append(out, lhs...)
	out = append(out, rhs...)
	return out, nil
}
