// Package jast is the generator's own JSONata expression tree with a printer.
// Programs are generated as trees and printed; the harness never parses
// JSONata text itself. Normalize inserts the explicit Block nodes that are
// needed for the printed text to parse back into the same structure, so the
// reference evaluator sees exactly the structure the port's parser builds.
package jast

import (
	"encoding/json"
	"math"
	"strconv"
	"strings"
	"unicode/utf8"
)

type Node interface{}

type (
	Str  struct{ V string }
	Num  struct{ V float64 }
	Bool struct{ V bool }
	Null struct{}
	// Var: Name "" is $, "$" is $$.
	Var  struct{ Name string }
	Name struct {
		V   string
		Esc bool // force back-quotes
		// Bare prints the words and, or, in without back-quotes (a field
		// name where an operand is expected)
		Bare bool
	}
	Wild struct{}
	Desc struct{}
	Path struct {
		Steps []Node
		Keep  bool // the [] marker (printed after the last step)
	}
	Neg   struct{ X Node }
	Range struct{ L, R Node } // only as an Array item
	Array struct{ Items []Node }
	// Object: constructor (as nud).
	Object struct{ Pairs [][2]Node }
	Block  struct{ Exprs []Node }
	Cond   struct{ If, Then, Else Node } // Else may be nil
	Assign struct {
		Name string
		Val  Node
	}
	Group struct {
		X     Node
		Pairs [][2]Node
	}
	Pred struct {
		X       Node
		Filters []Node
	}
	SortTerm struct {
		Dir string // "", "<", ">"
		X   Node
	}
	Sort struct {
		X     Node
		Terms []SortTerm
	}
	Lambda struct {
		Params []string
		Sig    string // without the angle brackets; "" = untyped
		Body   Node
		Short  bool
	}
	Transform struct{ Pattern, Update, Delete Node } // Delete may be nil
	Call      struct {
		Fn   Node
		Args []Node // may contain Placeholder -> partial application
	}
	Placeholder struct{}
	Apply       struct{ L, R Node }
	Bin         struct {
		Op   string // + - * / % = != < <= > >= in and or &
		L, R Node
	}
	Regex struct{ Pat, Flags string }
	// Raw is printed verbatim (single token); used by a few generators.
	Raw struct {
		Text string
		Lvl  int
	}
)

// Binding powers as in the property statement (higher binds tighter).
func OpLevel(op string) int {
	switch op {
	case "*", "/", "%":
		return 70
	case "+", "-", "&":
		return 60
	case "=", "!=", "<", "<=", ">", ">=", "in":
		return 50
	case "and":
		return 40
	case "or":
		return 30
	}
	return 0
}

// Level is the binding power of a node's top-level operator.
func Level(n Node) int {
	switch n := n.(type) {
	case *Bin:
		return OpLevel(n.Op)
	case *Neg:
		return 75 // tighter than * / %, looser than '.'
	case *Num:
		if n.V < 0 || (n.V == 0 && math.Signbit(n.V)) {
			return 75
		}
		return 1000
	case *Path:
		if len(n.Steps) == 1 && !n.Keep {
			return Level(n.Steps[0])
		}
		if n.Keep && len(n.Steps) == 1 {
			return 100
		}
		return 90
	case *Group:
		return 80
	case *Sort, *Apply:
		return 50
	case *Cond:
		return 20
	case *Assign:
		return 10
	case *Call, *Pred, *Lambda:
		return 100
	case *Raw:
		return n.Lvl
	}
	return 1000
}

// leftLevel is the binding power a node presents as a LEFT operand: an order-by
// ends with its closing parenthesis, so nothing that follows can reach into it.
func leftLevel(n Node) int {
	if _, ok := n.(*Sort); ok {
		return 1000
	}
	return Level(n)
}

// leftEdge is the loosest binding power exposed on a node's left spine: an
// operator to the left that binds tighter than this would capture the node's
// leftmost operand.
func leftEdge(n Node) int {
	min := func(a, b int) int {
		if a < b {
			return a
		}
		return b
	}
	switch n := n.(type) {
	case *Bin:
		return min(OpLevel(n.Op), leftEdge(n.L))
	case *Apply:
		return min(50, leftEdge(n.L))
	case *Sort:
		return min(50, leftEdge(n.X))
	case *Cond:
		return min(20, leftEdge(n.If))
	case *Group:
		return min(80, leftEdge(n.X))
	case *Pred:
		// a predicate directly on an order-by starts where the order-by starts
		return min(Level(n), leftEdge(n.X))
	case *Call:
		return min(Level(n), leftEdge(n.Fn))
	case *Path:
		if len(n.Steps) > 0 {
			return min(Level(n), leftEdge(n.Steps[0]))
		}
	}
	return Level(n)
}

// endsInOpenCond: the right edge of n is a conditional without else-branch
func endsInOpenCond(n Node) bool {
	switch n := n.(type) {
	case *Cond:
		if n.Else == nil {
			return true
		}
		return endsInOpenCond(n.Else)
	case *Assign:
		return endsInOpenCond(n.Val)
	case *Bin:
		return endsInOpenCond(n.R)
	case *Apply:
		return endsInOpenCond(n.R)
	case *Neg:
		return endsInOpenCond(n.X)
	case *Range:
		return endsInOpenCond(n.R)
	}
	return false
}

func headIsName(p *Pred) bool {
	_, ok := p.X.(*Name)
	return ok
}

func wrap(n Node) Node { return &Block{Exprs: []Node{n}} }

func need(n Node, min int) Node {
	if Level(n) < min {
		return wrap(n)
	}
	return n
}

// Normalize returns a structurally normalised copy: Blocks inserted where the
// grammar needs parentheses, nested paths spliced or wrapped, bare names turned
// into one-step paths.
func Normalize(n Node) Node {
	return norm(n, false)
}

func normList(xs []Node) []Node {
	out := make([]Node, len(xs))
	for i, x := range xs {
		out[i] = norm(x, false)
	}
	return out
}

func normPairs(ps [][2]Node) [][2]Node {
	out := make([][2]Node, len(ps))
	for i, p := range ps {
		k := norm(p[0], false)
		if l := Level(k); l <= 20 {
			k = wrap(k)
		}
		out[i] = [2]Node{k, norm(p[1], false)}
	}
	return out
}

// inPath: the node is being normalised as a step of a path (names stay bare).
func norm(n Node, inPath bool) Node {
	switch n := n.(type) {
	case nil:
		return nil
	case *Name:
		if inPath {
			return n
		}
		return &Path{Steps: []Node{n}}
	case *Path:
		var steps []Node
		keep := n.Keep
		for i, s := range n.Steps {
			s = norm(s, true)
			if p, ok := s.(*Path); ok {
				// a path used as a step: splice it when it is the first
				// step (the parser would), otherwise parenthesise it
				if i == 0 {
					steps = append(steps, p.Steps...)
					keep = keep || p.Keep
					continue
				}
				s = wrap(p)
			}
			min := 100
			if i == 0 {
				min = 90
				if _, isSort := s.(*Sort); isSort {
					// an order-by ends with its closing parenthesis: the
					// next '.' continues the path without parentheses
					steps = append(steps, s)
					continue
				}
				if _, isGroup := s.(*Group); isGroup {
					// likewise a grouping, which ends with its closing brace
					steps = append(steps, s)
					continue
				}
			}
			switch s.(type) {
			case *Str, *Num, *Bool, *Null:
				s = wrap(s) // literals are illegal as bare steps
			case *Lambda, *Transform, *Regex:
				s = wrap(s)
			}
			if _, isBlock := s.(*Block); !isBlock && i > 0 && leftEdge(s) < 100 {
				s = wrap(s) // (an order-by at its left edge would take the steps before it as its sequence)
			}
			steps = append(steps, need(s, min))
		}
		if len(steps) == 1 && !keep {
			// the parser only builds a one-step path around names (and
			// predicates on names); anything else stands for itself
			switch s := steps[0].(type) {
			case *Name:
			case *Pred:
				if !headIsName(s) {
					return s
				}
			default:
				return s
			}
		}
		return &Path{Steps: steps, Keep: keep}
	case *Neg:
		x := norm(n.X, false)
		if leftEdge(x) <= 70 {
			x = wrap(x)
		}
		return &Neg{X: x}
	case *Range:
		return &Range{L: norm(n.L, false), R: norm(n.R, false)}
	case *Array:
		return &Array{Items: normList(n.Items)}
	case *Object:
		return &Object{Pairs: normPairs(n.Pairs)}
	case *Block:
		return &Block{Exprs: normList(n.Exprs)}
	case *Cond:
		c := &Cond{If: norm(n.If, false), Then: norm(n.Then, false)}
		if leftLevel(c.If) <= 20 {
			c.If = wrap(c.If)
		}
		// the then-branch sits between '?' and ':' and needs no parentheses,
		// unless it ends in a conditional without an else-branch (which would
		// take this conditional's ':')
		if endsInOpenCond(c.Then) {
			c.Then = wrap(c.Then)
		}
		if n.Else != nil {
			c.Else = norm(n.Else, false)
		}
		return c
	case *Assign:
		return &Assign{Name: n.Name, Val: norm(n.Val, false)}
	case *Group:
		x := norm(n.X, false)
		// a group/sort on the left of a group is a parse error or a different
		// structure: parenthesise anything looser than a path
		if _, isSort := x.(*Sort); isSort {
			// an order-by ends with its closing parenthesis: the braces can
			// follow it directly (seq^(k){...} groups the sorted sequence)
		} else if Level(x) < 90 {
			x = wrap(x)
		}
		if _, ok := x.(*Group); ok {
			x = wrap(x)
		}
		return &Group{X: x, Pairs: normPairs(n.Pairs)}
	case *Pred:
		x := norm(n.X, true)
		if p, ok := x.(*Path); ok {
			x = wrap(p)
		}
		if _, isSort := x.(*Sort); isSort {
			// an order-by ends with its closing parenthesis: a predicate can
			// follow it directly (seq^(k)[0] filters the sorted sequence)
		} else if Level(x) < 100 {
			x = wrap(x)
		}
		switch x.(type) {
		case *Lambda, *Transform:
			x = wrap(x)
		}
		filters := normList(n.Filters)
		var pr *Pred
		if xp, ok := x.(*Pred); ok && headIsName(xp) {
			// the parser merges stacked predicates on a name step
			pr = &Pred{X: xp.X, Filters: append(append([]Node{}, xp.Filters...), filters...)}
		} else if _, isName := x.(*Name); isName || len(filters) <= 1 {
			pr = &Pred{X: x, Filters: filters}
		} else {
			// on any other head stacked predicates nest
			cur := x
			for _, f := range filters {
				cur = &Pred{X: cur, Filters: []Node{f}}
			}
			pr = cur.(*Pred)
		}
		if !inPath && headIsName(pr) {
			// outside a path a predicate on a name is a one-step path
			return &Path{Steps: []Node{pr}}
		}
		return pr
	case *Sort:
		x := norm(n.X, false)
		if leftLevel(x) < 50 {
			x = wrap(x)
		}
		ts := make([]SortTerm, len(n.Terms))
		for i, t := range n.Terms {
			ts[i] = SortTerm{Dir: t.Dir, X: norm(t.X, false)}
		}
		return &Sort{X: x, Terms: ts}
	case *Lambda:
		return &Lambda{Params: n.Params, Sig: n.Sig, Body: norm(n.Body, false), Short: n.Short}
	case *Transform:
		t := &Transform{Pattern: norm(n.Pattern, false), Update: norm(n.Update, false)}
		if n.Delete != nil {
			t.Delete = norm(n.Delete, false)
		}
		return t
	case *Call:
		if nm, ok := n.Fn.(*Name); ok && (nm.V == "function" || nm.V == "λ") && !nm.Esc {
			n = &Call{Fn: &Name{V: nm.V, Esc: true}, Args: n.Args}
		}
		f := norm(n.Fn, false)
		if Level(f) < 100 {
			f = wrap(f)
		}
		if _, ok := f.(*Transform); ok {
			f = wrap(f)
		}
		args := make([]Node, len(n.Args))
		for i, a := range n.Args {
			if _, ok := a.(*Placeholder); ok {
				args[i] = a
			} else {
				args[i] = norm(a, false)
			}
		}
		return &Call{Fn: f, Args: args}
	case *Apply:
		l := norm(n.L, false)
		r := norm(n.R, false)
		if leftLevel(l) < 50 {
			l = wrap(l)
		}
		if leftEdge(r) <= 50 {
			r = wrap(r)
		}
		return &Apply{L: l, R: r}
	case *Bin:
		p := OpLevel(n.Op)
		l := norm(n.L, false)
		r := norm(n.R, false)
		if leftLevel(l) < p {
			l = wrap(l)
		}
		if leftEdge(r) <= p {
			r = wrap(r)
		}
		return &Bin{Op: n.Op, L: l, R: r}
	}
	return n
}

// ---------------------------------------------------------------- printing

// Style controls optional whitespace and quoting.
type Style struct {
	Space  int  // 0 minimal, 1 spaces around infix operators, 2 random whitespace
	Single bool // single-quoted strings where possible
	Rnd    func(n int) int
}

type printer struct {
	toks []string
	st   Style
}

func (p *printer) tok(s string) { p.toks = append(p.toks, s) }

// Print renders a normalised tree.
func Print(n Node, st Style) string {
	p := &printer{st: st}
	p.node(n)
	return p.join()
}

var wsChoices = []string{" ", "  ", "\n", "\t", " \n ", "\r\n", "\r", "\v", "\r\n\t"}

func isWordTok(s string) bool {
	return s == "and" || s == "or" || s == "in"
}

func isInfixTok(s string) bool {
	switch s {
	case "+", "-", "*", "/", "%", "=", "!=", "<", "<=", ">", ">=", "&", "~>", ":=", "?", ":", "..":
		return true
	}
	return false
}

func (p *printer) join() string {
	var sb strings.Builder
	for i, t := range p.toks {
		if i > 0 {
			prev := p.toks[i-1]
			sep := ""
			switch {
			case isWordTok(t) || isWordTok(prev):
				sep = " "
			case needSpace(prev, t):
				sep = " "
			case p.st.Space == 1 && (isInfixTok(t) || isInfixTok(prev)):
				sep = " "
			case p.st.Space == 1 && (prev == "," || prev == ";"):
				sep = " "
			}
			if p.st.Space == 2 && p.st.Rnd != nil && glueOK(prev, t) {
				switch p.st.Rnd(3) {
				case 0:
					sep = wsChoices[p.st.Rnd(len(wsChoices))]
				case 1:
					if sep == "" {
						sep = ""
					}
				}
			}
			sb.WriteString(sep)
		}
		sb.WriteString(t)
	}
	return sb.String()
}

// glueOK reports whether optional whitespace may be inserted between the two
// tokens without changing the token stream (always true for our token lists,
// except inside lambda headers which are emitted as single tokens).
func glueOK(a, b string) bool { return true }

func isNameChar(r rune) bool {
	switch r {
	case ' ', '\t', '\n', '\r', '\v':
		return false
	case '[', ']', '{', '}', '(', ')', '.', ',', ';', ':', '?', '+', '-', '*', '/', '%', '|', '=', '<', '>', '^', '&', '!', '~':
		return false
	}
	return true
}

// needSpace: would a and b lex as one token (or differently) when adjacent?
func needSpace(a, b string) bool {
	if a == "" || b == "" {
		return false
	}
	la, _ := utf8.DecodeLastRuneInString(a)
	fb, _ := utf8.DecodeRuneInString(b)
	// name/number/variable characters running together
	if isNameChar(la) && isNameChar(fb) {
		if la == '"' || la == '\'' || la == '`' || fb == '"' || fb == '\'' || fb == '`' {
			return false
		}
		return true
	}
	// two-character symbols formed by accident
	pair := string(la) + string(fb)
	switch pair {
	case "!=", "<=", ">=", "..", "~>", ":=", "**":
		return true
	}
	// a number followed by '.' then a digit would read as a fraction: "1" "." is
	// only produced in paths over literals, which we never print
	if la == '/' || fb == '/' {
		// keep division and regex literals visually separate; harmless
		return false
	}
	return false
}

func QuoteStr(s string, single bool) string {
	b, _ := json.Marshal(s)
	// json.Marshal escapes <,>,& as < etc. which the lexer accepts.
	out := string(b)
	if single {
		if strings.ContainsRune(s, '\'') {
			return out
		}
		inner := out[1 : len(out)-1]
		inner = strings.ReplaceAll(inner, `\"`, `"`)
		return "'" + inner + "'"
	}
	return out
}

func PlainName(s string) bool {
	if s == "" {
		return false
	}
	switch s {
	case "and", "or", "in", "true", "false", "null", "function", "λ":
		return false
	}
	for i, r := range s {
		if !isNameChar(r) || r == '$' || r == '"' || r == '\'' || r == '`' || r == '\\' {
			return false
		}
		if i == 0 && r >= '0' && r <= '9' {
			return false
		}
	}
	return true
}

func FormatNum(f float64) string {
	if f == 0 && math.Signbit(f) {
		return "-0"
	}
	s := strconv.FormatFloat(f, 'g', -1, 64)
	return s
}

func (p *printer) list(xs []Node, sep string) {
	for i, x := range xs {
		if i > 0 {
			p.tok(sep)
		}
		p.node(x)
	}
}

func (p *printer) pairs(ps [][2]Node) {
	p.tok("{")
	for i, kv := range ps {
		if i > 0 {
			p.tok(",")
		}
		p.node(kv[0])
		p.tok(":")
		p.node(kv[1])
	}
	p.tok("}")
}

func (p *printer) node(n Node) {
	switch n := n.(type) {
	case *Str:
		p.tok(QuoteStr(n.V, p.st.Single))
	case *Num:
		s := FormatNum(n.V)
		if strings.HasPrefix(s, "-") {
			p.tok("-")
			p.tok(s[1:])
		} else {
			p.tok(s)
		}
	case *Bool:
		if n.V {
			p.tok("true")
		} else {
			p.tok("false")
		}
	case *Null:
		p.tok("null")
	case *Var:
		p.tok("$" + n.Name)
	case *Name:
		if n.Bare && isWordTok(n.V) {
			p.tok(n.V)
		} else if n.Esc || !PlainName(n.V) {
			p.tok("`" + n.V + "`")
		} else {
			p.tok(n.V)
		}
	case *Wild:
		p.tok("*")
	case *Desc:
		p.tok("**")
	case *Path:
		for i, s := range n.Steps {
			if i > 0 {
				p.tok(".")
			}
			p.node(s)
		}
		if n.Keep {
			p.tok("[")
			p.tok("]")
		}
	case *Neg:
		p.tok("-")
		p.node(n.X)
	case *Range:
		p.node(n.L)
		p.tok("..")
		p.node(n.R)
	case *Array:
		p.tok("[")
		p.list(n.Items, ",")
		p.tok("]")
	case *Object:
		p.pairs(n.Pairs)
	case *Block:
		p.tok("(")
		p.list(n.Exprs, ";")
		p.tok(")")
	case *Cond:
		p.node(n.If)
		p.tok("?")
		p.node(n.Then)
		if n.Else != nil {
			p.tok(":")
			p.node(n.Else)
		}
	case *Assign:
		p.tok("$" + n.Name)
		p.tok(":=")
		p.node(n.Val)
	case *Group:
		p.node(n.X)
		p.pairs(n.Pairs)
	case *Pred:
		p.node(n.X)
		for _, f := range n.Filters {
			p.tok("[")
			p.node(f)
			p.tok("]")
		}
	case *Sort:
		p.node(n.X)
		p.tok("^")
		p.tok("(")
		for i, t := range n.Terms {
			if i > 0 {
				p.tok(",")
			}
			if t.Dir != "" {
				p.tok(t.Dir)
			}
			p.node(t.X)
		}
		p.tok(")")
	case *Lambda:
		kw := "function"
		if n.Short {
			kw = "λ"
		}
		ps := make([]string, len(n.Params))
		for i, s := range n.Params {
			ps[i] = "$" + s
		}
		hdr := kw + "(" + strings.Join(ps, ",") + ")"
		if n.Sig != "" {
			hdr += "<" + n.Sig + ">"
		}
		p.tok(hdr)
		p.tok("{")
		p.node(n.Body)
		p.tok("}")
	case *Transform:
		p.tok("|")
		p.node(n.Pattern)
		p.tok("|")
		p.node(n.Update)
		if n.Delete != nil {
			p.tok(",")
			p.node(n.Delete)
		}
		p.tok("|")
	case *Call:
		p.node(n.Fn)
		p.tok("(")
		for i, a := range n.Args {
			if i > 0 {
				p.tok(",")
			}
			if _, ok := a.(*Placeholder); ok {
				p.tok("?")
			} else {
				p.node(a)
			}
		}
		p.tok(")")
	case *Placeholder:
		p.tok("?")
	case *Apply:
		p.node(n.L)
		p.tok("~>")
		p.node(n.R)
	case *Bin:
		p.node(n.L)
		p.tok(n.Op)
		p.node(n.R)
	case *Regex:
		p.tok("/" + n.Pat + "/" + n.Flags)
	case *Raw:
		p.tok(n.Text)
	case nil:
	default:
		panic("jast: unknown node")
	}
}
