package jast

// Walk calls fn for every node of the tree (pre-order).
func Walk(n Node, fn func(Node)) {
	if n == nil {
		return
	}
	fn(n)
	switch n := n.(type) {
	case *Path:
		for _, s := range n.Steps {
			Walk(s, fn)
		}
	case *Neg:
		Walk(n.X, fn)
	case *Range:
		Walk(n.L, fn)
		Walk(n.R, fn)
	case *Array:
		for _, s := range n.Items {
			Walk(s, fn)
		}
	case *Object:
		for _, p := range n.Pairs {
			Walk(p[0], fn)
			Walk(p[1], fn)
		}
	case *Block:
		for _, s := range n.Exprs {
			Walk(s, fn)
		}
	case *Cond:
		Walk(n.If, fn)
		Walk(n.Then, fn)
		Walk(n.Else, fn)
	case *Assign:
		Walk(n.Val, fn)
	case *Group:
		Walk(n.X, fn)
		for _, p := range n.Pairs {
			Walk(p[0], fn)
			Walk(p[1], fn)
		}
	case *Pred:
		Walk(n.X, fn)
		for _, s := range n.Filters {
			Walk(s, fn)
		}
	case *Sort:
		Walk(n.X, fn)
		for _, t := range n.Terms {
			Walk(t.X, fn)
		}
	case *Lambda:
		Walk(n.Body, fn)
	case *Transform:
		Walk(n.Pattern, fn)
		Walk(n.Update, fn)
		Walk(n.Delete, fn)
	case *Call:
		Walk(n.Fn, fn)
		for _, s := range n.Args {
			Walk(s, fn)
		}
	case *Apply:
		Walk(n.L, fn)
		Walk(n.R, fn)
	case *Bin:
		Walk(n.L, fn)
		Walk(n.R, fn)
	}
}

// Traits summarises properties of a program that matter for determinism.
type Traits struct {
	Iterates  bool // iterates over object members (*, **, $keys, $each, $spread, $sift, $merge)
	MultiPair bool // an object constructor / grouping with two or more pairs
	NonDet    bool // $random, $shuffle, $now, $millis
	Transform bool
}

func TraitsOf(n Node) Traits {
	var t Traits
	Walk(n, func(x Node) {
		switch x := x.(type) {
		case *Wild, *Desc:
			t.Iterates = true
		case *Regex:
			t.MultiPair = true // match objects have five members
		case *Var:
			switch x.Name {
			case "keys", "each", "spread", "sift", "merge", "lookup":
				t.Iterates = true
			case "random", "shuffle", "now", "millis":
				t.NonDet = true
			case "match":
				t.MultiPair = true // match objects have three members
			}
		case *Object:
			if len(x.Pairs) >= 2 {
				t.MultiPair = true
			}
			if len(x.Pairs) == 1 {
				if _, lit := x.Pairs[0][0].(*Str); !lit {
					t.MultiPair = true // a computed key may collide or fail per item
				}
			}
		case *Group:
			t.MultiPair = true
		case *Transform:
			t.Transform = true
		}
	})
	return t
}
