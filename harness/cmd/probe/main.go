// probe: development helper, evaluates programs given on the command line.
package main

import (
	"encoding/json"
	"fmt"
	"os"

	"verif/harness/obs"
)

func main() {
	if len(os.Args) < 2 {
		fmt.Println("usage: probe <prog> [json-input]")
		return
	}
	var in interface{}
	if len(os.Args) > 2 {
		if err := json.Unmarshal([]byte(os.Args[2]), &in); err != nil {
			fmt.Println("bad input:", err)
			return
		}
	}
	o := obs.Run(os.Args[1], in)
	fmt.Println(o.String())
	if o.Kind == "value" {
		fmt.Printf("gotype=%T\n", o.Val)
	}
}
