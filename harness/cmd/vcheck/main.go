// vcheck is both the driver and the worker of the runtime-monitoring harness.
package main

import (
	"encoding/json"
	"flag"
	"fmt"
	"os"
	"strconv"
	"strings"

	"verif/harness/fw"
	_ "verif/harness/props"
)

func main() {
	if len(os.Args) < 2 {
		fmt.Fprintln(os.Stderr, "usage: vcheck drive|worker|one|replay|list ...")
		os.Exit(2)
	}
	mode := os.Args[1]
	fs := flag.NewFlagSet(mode, flag.ExitOnError)
	prop := fs.String("prop", "", "property id")
	tier := fs.String("tier", "quick", "quick|thorough")
	seed := fs.Uint64("seed", 1, "VERIF_SEED")
	shard := fs.Int("shard", 0, "")
	of := fs.Int("of", 1, "")
	dir := fs.String("dir", "", "work dir")
	root := fs.String("root", "/verif", "verif root")
	skip := fs.String("skip", "", "")
	cs := fs.Int64("case", -1, "")
	cpu := fs.Float64("cpu", 0, "")
	fs.Parse(os.Args[2:])
	switch mode {
	case "list":
		for _, id := range fw.All() {
			fmt.Println(id)
		}
	case "drive":
		bin, _ := os.Executable()
		os.Exit(fw.DriveMain(*prop, *tier, *seed, *root, bin))
	case "worker":
		sk := map[int64]bool{}
		for _, s := range strings.Split(*skip, ",") {
			if s != "" {
				n, _ := strconv.ParseInt(s, 10, 64)
				sk[n] = true
			}
		}
		os.Exit(fw.WorkerMain(*prop, *tier, *seed, *shard, *of, *dir, sk, -1, 0))
	case "one":
		d := *dir
		if d == "" {
			d = *root + "/.work/single"
		}
		os.Exit(fw.WorkerMain(*prop, *tier, *seed, 0, 1, d, nil, *cs, *cpu))
	case "replay":
		if fs.NArg() < 1 {
			fmt.Fprintln(os.Stderr, "replay <file>")
			os.Exit(2)
		}
		b, err := os.ReadFile(fs.Arg(0))
		if err != nil {
			fmt.Fprintln(os.Stderr, err)
			os.Exit(2)
		}
		var v fw.ViolationRec
		if err := json.Unmarshal(b, &v); err != nil {
			fmt.Fprintln(os.Stderr, err)
			os.Exit(2)
		}
		if v.Case < 0 {
			fmt.Println("this violation came from an offline checker over a whole run; re-run the check with the same tier and seed")
			os.Exit(2)
		}
		code := fw.WorkerMain(v.Property, v.Tier, v.Seed, 0, 1, *root+"/.work/single", nil, v.Case, 30)
		if code == 1 {
			fmt.Printf("VIOLATION property=%s replay=%s\n", v.Property, fs.Arg(0))
		}
		os.Exit(code)
	default:
		fmt.Fprintln(os.Stderr, "unknown mode", mode)
		os.Exit(2)
	}
}
