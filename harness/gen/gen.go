// Package gen holds the shared document and program generators.
package gen

import (
	"encoding/json"
	"math"
	"strings"

	"verif/harness/jast"
	"verif/harness/prng"
)

// ---------------------------------------------------------------- documents

// DocOpts controls the JSON document generator.
type DocOpts struct {
	Nulls     bool
	MaxDepth  int
	MaxWidth  int
	OneMember bool // objects have at most one member (map-order hygiene)
}

var docKeys = []string{"a", "b", "c", "k", "v", "b c", "and", "id"}
var docStrings = []string{"", "a", "b", "1", "x y", "é", "😀", "true", "z"}
var docNumbers = []float64{0, 1, 2, 3, -1, 0.5, 10, 1e21, -2.5, 100}

// Doc generates a JSON value as Go data (map[string]interface{}, []interface{},
// float64, string, bool, nil).
func Doc(r *prng.R, o DocOpts) interface{} {
	if o.MaxDepth == 0 {
		o.MaxDepth = 4
	}
	if o.MaxWidth == 0 {
		o.MaxWidth = 4
	}
	return docValue(r, o, 0, true)
}

func docScalar(r *prng.R, o DocOpts) interface{} {
	switch r.Intn(7) {
	case 0, 1:
		return docNumbers[r.Intn(len(docNumbers))]
	case 2, 3:
		return docStrings[r.Intn(len(docStrings))]
	case 4:
		return r.Bool()
	case 5:
		if o.Nulls {
			return nil
		}
		return float64(r.Intn(5))
	}
	return float64(r.Intn(4))
}

func docValue(r *prng.R, o DocOpts, depth int, top bool) interface{} {
	if depth >= o.MaxDepth {
		return docScalar(r, o)
	}
	k := r.Intn(10)
	if top && k < 3 {
		k = 7
	}
	switch {
	case k < 3:
		return docScalar(r, o)
	case k < 6:
		// array; nested arrays directly inside arrays with probability 1/4
		n := r.Intn(o.MaxWidth + 1)
		arr := make([]interface{}, 0, n)
		for i := 0; i < n; i++ {
			if r.Intn(4) == 0 {
				m := r.Intn(3)
				inner := make([]interface{}, 0, m)
				for j := 0; j < m; j++ {
					inner = append(inner, docValue(r, o, depth+2, false))
				}
				arr = append(arr, inner)
			} else {
				arr = append(arr, docValue(r, o, depth+1, false))
			}
		}
		return arr
	default:
		n := r.Intn(o.MaxWidth + 1)
		if o.OneMember && n > 1 {
			n = 1
		}
		obj := map[string]interface{}{}
		for i := 0; i < n; i++ {
			obj[docKeys[r.Intn(len(docKeys))]] = docValue(r, o, depth+1, false)
		}
		return obj
	}
}

// JSON renders a value as JSON text (keys sorted, deterministic).
func JSON(v interface{}) string {
	b, err := json.Marshal(v)
	if err != nil {
		return "null"
	}
	return string(b)
}

// Clone deep-copies plain JSON data with the harness's own recursive copier.
func Clone(v interface{}) interface{} {
	switch v := v.(type) {
	case []interface{}:
		out := make([]interface{}, len(v))
		for i, x := range v {
			out[i] = Clone(x)
		}
		return out
	case map[string]interface{}:
		out := make(map[string]interface{}, len(v))
		for k, x := range v {
			out[k] = Clone(x)
		}
		return out
	}
	return v
}

// ---------------------------------------------------------------- builtins

// Builtin describes a library function for the generators.
type Builtin struct {
	Name string
	Min  int // minimum arity accepted
	Max  int // declared parameter count (-1 variadic)
	Det  bool
}

var Builtins = []Builtin{
	{"string", 0, 1, true}, {"length", 0, 1, true}, {"substring", 1, 3, true}, {"substringBefore", 1, 2, true},
	{"substringAfter", 1, 2, true}, {"uppercase", 0, 1, true}, {"lowercase", 0, 1, true}, {"pad", 1, 3, true},
	{"trim", 0, 1, true}, {"contains", 1, 2, true}, {"split", 1, 3, true}, {"join", 1, 2, true},
	{"match", 1, 3, true}, {"replace", 2, 4, true}, {"formatNumber", 1, 3, true}, {"formatBase", 0, 2, true},
	{"base64encode", 0, 1, true}, {"base64decode", 0, 1, true}, {"decodeUrl", 0, 1, true}, {"decodeUrlComponent", 0, 1, true},
	{"encodeUrl", 0, 1, true}, {"encodeUrlComponent", 0, 1, true},
	{"number", 0, 1, true}, {"abs", 0, 1, true}, {"floor", 0, 1, true}, {"ceil", 0, 1, true}, {"round", 0, 2, true},
	{"power", 1, 2, true}, {"sqrt", 0, 1, true}, {"random", 0, 0, false},
	{"sum", 1, 1, true}, {"max", 1, 1, true}, {"min", 1, 1, true}, {"average", 1, 1, true},
	{"boolean", 0, 1, true}, {"not", 0, 1, true}, {"exists", 1, 1, true},
	{"distinct", 1, 1, true}, {"count", 1, 1, true}, {"reverse", 1, 1, true}, {"sort", 1, 2, true}, {"shuffle", 1, 1, false},
	{"zip", 1, -1, true}, {"append", 2, 2, true}, {"map", 2, 2, true}, {"filter", 2, 2, true}, {"reduce", 2, 3, true},
	{"single", 2, 2, true},
	{"each", 1, 2, true}, {"sift", 1, 2, true}, {"keys", 0, 1, true}, {"lookup", 1, 2, true}, {"spread", 0, 1, true},
	{"merge", 1, 1, true},
	{"fromMillis", 0, 3, true}, {"toMillis", 0, 2, true}, {"type", 0, 1, true}, {"error", 1, 1, true},
	{"now", 0, 2, false}, {"millis", 0, 0, false},
}

// ---------------------------------------------------------------- chaotic programs

// Chaos generates type-chaotic programs: any expression in any position.
type Chaos struct {
	R        *prng.R
	MaxDepth int
	Det      bool // avoid non-deterministic built-ins
	NoHuge   bool // keep size-like parameters small (always true in practice)
	vars     []string // data variables in scope (parameters, block bindings)
	fvars    []string // variables bound to function-valued expressions
	nvar     int
	Tags     map[string]bool
}

func NewChaos(r *prng.R, depth int, det bool) *Chaos {
	return &Chaos{R: r, MaxDepth: depth, Det: det, NoHuge: true, Tags: map[string]bool{}}
}

func (g *Chaos) tag(s string) { g.Tags[s] = true }

func itoa(n int) string {
	if n == 0 {
		return "0"
	}
	s := ""
	for n > 0 {
		s = string(rune('0'+n%10)) + s
		n /= 10
	}
	return s
}

var chaosNames = []string{"a", "b", "c", "k", "v", "id", "b c", "and"}
var chaosStrs = []string{"", "a", "b", "1", "é😀", "0", "[0]", "a,b", "2017-05-15T15:12:59.152Z", "#0.00", "abc", " x  y ", "%41"}
var chaosNums = []float64{0, 1, 2, -1, 0.5, 3, 10, -2.5, 1e21, 1e-7, 9007199254740992, 255, 1500000000000, 36, 2.5, 1e308}
var smallNums = []float64{0, 1, 2, -1, 3, 5, -3, 0.5, 8}

var pictures = []string{"0", "#,##0.00", "0.0e0", "00%", "#‰", "0.###", "[Y0001]-[M01]-[D01]", "[H01]:[m01]", "[D1o] [MNn] [Y]", "#.0;(#.0)", "[h]", "", "e", "0.0.0", "[", "[Y", "9,9", "#0e0#"}

func (g *Chaos) Lit() jast.Node {
	r := g.R
	switch r.Intn(8) {
	case 0, 1:
		return &jast.Num{V: chaosNums[r.Intn(len(chaosNums))]}
	case 2, 3:
		return &jast.Str{V: chaosStrs[r.Intn(len(chaosStrs))]}
	case 4:
		return &jast.Bool{V: r.Bool()}
	case 5:
		return &jast.Null{}
	case 6:
		return &jast.Str{V: pictures[r.Intn(len(pictures))]}
	}
	return &jast.Num{V: smallNums[r.Intn(len(smallNums))]}
}

func (g *Chaos) name() *jast.Name { return &jast.Name{V: chaosNames[g.R.Intn(len(chaosNames))]} }

func (g *Chaos) Var() jast.Node {
	r := g.R
	if len(g.vars) > 0 && r.Intn(3) > 0 {
		return &jast.Var{Name: g.vars[r.Intn(len(g.vars))]}
	}
	switch r.Intn(4) {
	case 0:
		return &jast.Var{Name: ""}
	case 1:
		return &jast.Var{Name: "$"}
	case 2:
		return &jast.Var{Name: "undefinedvar"}
	}
	return &jast.Var{Name: ""}
}

// Fn returns an expression that (usually) evaluates to a function.
func (g *Chaos) Fn(d int) jast.Node {
	r := g.R
	switch r.Intn(8) {
	case 0, 1, 2:
		return &jast.Var{Name: g.builtinFn().Name}
	case 3:
		return g.Lambda(d)
	case 4:
		// partial application
		b := g.builtinFn()
		n := b.Max
		if n < 1 {
			n = 2
		}
		args := make([]jast.Node, n)
		for i := range args {
			if r.Intn(2) == 0 {
				args[i] = &jast.Placeholder{}
			} else {
				args[i] = g.Expr(d + 1)
			}
		}
		args[r.Intn(n)] = &jast.Placeholder{}
		g.tag("partial")
		return &jast.Call{Fn: &jast.Var{Name: b.Name}, Args: args}
	case 5:
		g.tag("regex")
		return &jast.Regex{Pat: r.Pick("a", "a|b", "(a)(b)?", "[a-c]+", ".", "\\d+", "^", "a*"), Flags: r.Pick("", "i", "m", "")}
	case 6:
		if d < g.MaxDepth {
			// a composed function (f ~> g), possibly of composed functions
			g.tag("composition")
			return &jast.Block{Exprs: []jast.Node{&jast.Apply{L: g.Fn(d + 2), R: g.Fn(d + 2)}}}
		}
	}
	if len(g.fvars) > 0 {
		return &jast.Var{Name: g.fvars[r.Intn(len(g.fvars))]}
	}
	return &jast.Var{Name: g.builtinFn().Name}
}

// builtinFn picks a built-in for positions where the generator does not
// control the arguments (function values, partials, chain targets): $pad is
// left out there because its width is a size-like parameter.
func (g *Chaos) builtinFn() Builtin {
	for {
		b := g.builtin()
		if b.Name != "pad" {
			return b
		}
	}
}

func (g *Chaos) builtin() Builtin {
	for {
		b := Builtins[g.R.Intn(len(Builtins))]
		if g.Det && !b.Det {
			continue
		}
		return b
	}
}

var sigs = []string{"n", "s", "b", "a", "o", "f", "j", "x", "l", "n-", "s?", "n+", "a<n>", "(ns)", "a<s>", "x+", "j-", "(nsb)?", "a<(ns)>", "f<n:n>"}

func (g *Chaos) Lambda(d int) jast.Node {
	r := g.R
	n := r.Intn(4)
	ps := []string{"x", "y", "z"}[:min(n, 3)]
	l := &jast.Lambda{Params: append([]string{}, ps...), Short: r.Intn(4) == 0}
	if r.Intn(3) == 0 && len(ps) > 0 {
		var sb strings.Builder
		for i := range ps {
			s := sigs[r.Intn(len(sigs))]
			// keep options in canonical places most of the time
			if i != 0 && strings.HasSuffix(s, "-") && r.Intn(4) > 0 {
				s = strings.TrimSuffix(s, "-")
			}
			if i != len(ps)-1 && strings.HasSuffix(s, "+") && r.Intn(4) > 0 {
				s = strings.TrimSuffix(s, "+")
			}
			sb.WriteString(s)
		}
		if r.Intn(3) == 0 {
			sb.WriteString(":" + r.Pick("n", "s", "x", "a"))
		}
		l.Sig = sb.String()
		g.tag("typed-lambda")
	}
	saved := g.vars
	g.vars = append(append([]string{}, g.vars...), ps...)
	l.Body = g.Expr(d + 1)
	g.vars = saved
	g.tag("lambda")
	return l
}

// sizeArg returns a small number literal for size-like parameters.
func (g *Chaos) sizeArg() jast.Node {
	return &jast.Num{V: smallNums[g.R.Intn(len(smallNums))]}
}

// CallBuiltin builds a call of b with n arguments.
func (g *Chaos) CallBuiltin(b Builtin, n int, d int) jast.Node {
	args := make([]jast.Node, n)
	for i := range args {
		args[i] = g.Expr(d + 1)
	}
	// size-like parameters stay small: $pad width, $split/$match/$replace limits,
	// $substring lengths are harmless.
	switch b.Name {
	case "pad":
		if n >= 2 {
			args[1] = g.sizeArg()
		} else if n == 1 {
			args[0] = g.sizeArg()
		}
		for i := range args {
			if nn, ok := args[i].(*jast.Num); ok && math.Abs(nn.V) > 100 {
				args[i] = g.sizeArg()
			}
		}
	case "formatBase", "round", "power", "substring", "fromMillis", "formatNumber", "split", "match", "replace":
	}
	g.tag("fn:" + b.Name)
	return &jast.Call{Fn: &jast.Var{Name: b.Name}, Args: args}
}

func (g *Chaos) pathStep(d int) jast.Node {
	r := g.R
	switch r.Intn(12) {
	case 0, 1, 2, 3:
		return g.name()
	case 4:
		g.tag("wildcard")
		return &jast.Wild{}
	case 5:
		g.tag("descendant")
		return &jast.Desc{}
	case 6:
		return g.Var()
	case 7:
		return &jast.Block{Exprs: []jast.Node{g.Expr(d + 1)}}
	case 8:
		return &jast.Array{Items: []jast.Node{g.Expr(d + 1)}}
	case 9:
		return &jast.Object{Pairs: [][2]jast.Node{{&jast.Str{V: "x"}, g.Expr(d + 1)}}}
	case 10:
		b := g.builtin()
		return g.CallBuiltin(b, r.Range(b.Min, max(b.Min, min(b.Max, 2))), d)
	}
	g.tag("predicate")
	return &jast.Pred{X: g.name(), Filters: []jast.Node{g.Expr(d + 1)}}
}

var binOps = []string{"+", "-", "*", "/", "%", "=", "!=", "<", "<=", ">", ">=", "in", "and", "or", "&"}

// Expr generates any expression.
func (g *Chaos) Expr(d int) jast.Node {
	r := g.R
	if d >= g.MaxDepth {
		switch r.Intn(4) {
		case 0:
			return g.name()
		case 1:
			return g.Var()
		}
		return g.Lit()
	}
	switch k := r.Intn(30); k {
	case 0, 1:
		return g.Lit()
	case 2:
		return g.Var()
	case 3, 4:
		n := r.Range(1, 4)
		p := &jast.Path{Keep: r.Intn(6) == 0}
		for i := 0; i < n; i++ {
			p.Steps = append(p.Steps, g.pathStep(d))
		}
		g.tag("path")
		return p
	case 5, 6:
		op := binOps[r.Intn(len(binOps))]
		g.tag("op:" + op)
		return &jast.Bin{Op: op, L: g.Expr(d + 1), R: g.Expr(d + 1)}
	case 7:
		g.tag("neg")
		return &jast.Neg{X: g.Expr(d + 1)}
	case 8:
		n := r.Intn(4)
		a := &jast.Array{}
		for i := 0; i < n; i++ {
			if r.Intn(6) == 0 {
				g.tag("range")
				a.Items = append(a.Items, &jast.Range{L: g.rangeBound(d), R: g.rangeBound(d)})
			} else {
				a.Items = append(a.Items, g.Expr(d+1))
			}
		}
		g.tag("array")
		return a
	case 9:
		n := r.Intn(3)
		o := &jast.Object{}
		for i := 0; i < n; i++ {
			var k jast.Node = &jast.Str{V: r.Pick("x", "y", "z")}
			if r.Intn(4) == 0 {
				k = g.Expr(d + 1)
			}
			o.Pairs = append(o.Pairs, [2]jast.Node{k, g.Expr(d + 1)})
		}
		g.tag("object")
		return o
	case 10:
		n := r.Range(1, 3)
		b := &jast.Block{}
		saved, savedF := g.vars, g.fvars
		for i := 0; i < n; i++ {
			if i < n-1 && r.Intn(2) == 0 {
				// unique names: a function body can only refer to bindings made
				// strictly before it, so generated programs cannot recurse
				// (the property exempts unbounded recursion)
				g.nvar++
				if r.Intn(3) == 0 {
					nm := "f" + itoa(g.nvar)
					b.Exprs = append(b.Exprs, &jast.Assign{Name: nm, Val: g.Fn(d + 1)})
					g.fvars = append(append([]string{}, g.fvars...), nm)
				} else {
					nm := r.Pick("p", "q") + itoa(g.nvar)
					b.Exprs = append(b.Exprs, &jast.Assign{Name: nm, Val: g.Expr(d + 1)})
					g.vars = append(append([]string{}, g.vars...), nm)
				}
			} else {
				b.Exprs = append(b.Exprs, g.Expr(d+1))
			}
		}
		g.vars, g.fvars = saved, savedF
		g.tag("block")
		return b
	case 11:
		c := &jast.Cond{If: g.Expr(d + 1), Then: g.Expr(d + 1)}
		if r.Intn(3) > 0 {
			c.Else = g.Expr(d + 1)
		}
		g.tag("cond")
		return c
	case 12, 13, 14, 15, 16, 17:
		b := g.builtin()
		hi := b.Max
		if hi < 0 {
			hi = 3
		}
		n := r.Range(0, hi+1)
		if r.Intn(3) > 0 {
			n = r.Range(b.Min, hi)
		}
		c := g.CallBuiltin(b, n, d)
		// higher-order built-ins get a function argument most of the time
		switch b.Name {
		case "map", "filter", "reduce", "single", "each", "sift", "sort":
			cc := c.(*jast.Call)
			if len(cc.Args) >= 2 && r.Intn(5) > 0 {
				cc.Args[1] = g.Fn(d + 1)
			}
		case "match", "replace", "split", "contains":
			cc := c.(*jast.Call)
			if len(cc.Args) >= 2 && r.Intn(2) == 0 {
				cc.Args[1] = &jast.Regex{Pat: r.Pick("a", "a|b", "(a)(b)?", "[a-c]+", ".", "x*"), Flags: r.Pick("", "i")}
			}
		}
		return c
	case 18:
		g.tag("call-fn")
		n := r.Intn(4)
		args := make([]jast.Node, n)
		for i := range args {
			args[i] = g.Expr(d + 1)
		}
		return &jast.Call{Fn: g.Fn(d + 1), Args: args}
	case 19:
		g.tag("apply")
		var rhs jast.Node
		switch r.Intn(3) {
		case 0:
			rhs = g.Fn(d + 1)
		case 1:
			b := g.builtinFn()
			hi := b.Max
			if hi < 0 {
				hi = 2
			}
			rhs = g.CallBuiltin(b, r.Range(0, max(0, hi-1)), d)
		default:
			rhs = g.Expr(d + 1)
		}
		var lhs jast.Node = g.Expr(d + 1)
		if r.Intn(4) == 0 {
			lhs = g.Fn(d + 1)
		}
		return &jast.Apply{L: lhs, R: rhs}
	case 20:
		g.tag("sort")
		n := r.Range(1, 2)
		s := &jast.Sort{X: g.Expr(d + 1)}
		for i := 0; i < n; i++ {
			s.Terms = append(s.Terms, jast.SortTerm{Dir: r.Pick("", "<", ">"), X: g.Expr(d + 1)})
		}
		return s
	case 21:
		g.tag("group")
		gr := &jast.Group{X: g.Expr(d + 1)}
		n := r.Range(1, 2)
		for i := 0; i < n; i++ {
			gr.Pairs = append(gr.Pairs, [2]jast.Node{g.Expr(d + 1), g.Expr(d + 1)})
		}
		return gr
	case 22:
		g.tag("pred")
		p := &jast.Pred{X: g.Expr(d + 1)}
		n := r.Range(1, 2)
		for i := 0; i < n; i++ {
			p.Filters = append(p.Filters, g.Expr(d+1))
		}
		return p
	case 23:
		return g.Fn(d)
	case 24:
		g.tag("transform")
		t := &jast.Transform{Pattern: g.Expr(d + 1), Update: g.Expr(d + 1)}
		if r.Intn(2) == 0 {
			t.Delete = g.Expr(d + 1)
		}
		if r.Intn(3) > 0 {
			return &jast.Apply{L: g.Expr(d + 1), R: t}
		}
		return t
	case 25:
		// functions used as data
		g.tag("fn-as-data")
		f := g.Fn(d + 1)
		switch r.Intn(6) {
		case 0:
			return &jast.Path{Steps: []jast.Node{&jast.Block{Exprs: []jast.Node{f}}, &jast.Wild{}}}
		case 1:
			return &jast.Path{Steps: []jast.Node{&jast.Array{Items: []jast.Node{f}}, &jast.Desc{}}}
		case 2:
			return &jast.Call{Fn: &jast.Var{Name: r.Pick("distinct", "keys", "spread", "string", "type", "count", "reverse", "each", "merge")}, Args: []jast.Node{&jast.Array{Items: []jast.Node{f, g.Expr(d + 1)}}}}
		case 3:
			return &jast.Bin{Op: "&", L: f, R: g.Expr(d + 1)}
		case 4:
			return &jast.Sort{X: g.Expr(d + 1), Terms: []jast.SortTerm{{X: f}}}
		}
		return &jast.Group{X: g.Expr(d + 1), Pairs: [][2]jast.Node{{f, g.Expr(d + 1)}}}
	case 26:
		// bounded recursion through a binding
		g.tag("recursion")
		return &jast.Block{Exprs: []jast.Node{
			&jast.Assign{Name: "rec", Val: &jast.Lambda{Params: []string{"n"}, Body: &jast.Cond{
				If:   &jast.Bin{Op: "<=", L: &jast.Var{Name: "n"}, R: &jast.Num{V: 0}},
				Then: g.Expr(d + 2),
				Else: &jast.Call{Fn: &jast.Var{Name: "rec"}, Args: []jast.Node{&jast.Bin{Op: "-", L: &jast.Var{Name: "n"}, R: &jast.Num{V: 1}}}},
			}}},
			&jast.Call{Fn: &jast.Var{Name: "rec"}, Args: []jast.Node{&jast.Num{V: float64(r.Intn(20))}}},
		}}
	case 27:
		return g.name()
	case 28:
		// nested-array literal as data
		g.tag("nested-array")
		return &jast.Array{Items: []jast.Node{&jast.Array{Items: []jast.Node{g.Expr(d + 1), &jast.Array{Items: []jast.Node{g.Lit()}}}}, g.Expr(d + 1)}}
	}
	return g.Lit()
}

func (g *Chaos) rangeBound(d int) jast.Node {
	r := g.R
	switch r.Intn(5) {
	case 0:
		return g.Expr(d + 1)
	case 1:
		return &jast.Num{V: float64(r.Range(-5, 200))}
	}
	return &jast.Num{V: float64(r.Range(-3, 12))}
}

// Program returns a normalised tree and its text.
func (g *Chaos) Program(st jast.Style) (jast.Node, string) {
	n := jast.Normalize(g.Expr(0))
	return n, jast.Print(n, st)
}
