package props

import (
	"reflect"
	"bytes"
	"encoding/json"
	"fmt"
	"strings"
	"unicode/utf8"

	jsonata "github.com/blues/jsonata-go"

	"verif/harness/fw"
	"verif/harness/gen"
	"verif/harness/jast"
	"verif/harness/obs"
	"verif/harness/prng"
)

// C09: Eval is total. C10: results are JSON-representable, ErrUndefined iff no
// value, EvalBytes agrees. Both run the same workload with different monitors.

// argument kinds for the systematic (built-in x arity x kind) sweep
var argKinds = []struct {
	Kind string
	Alts []string // program texts
}{
	{"number", []string{"1", "-2.5", "0", "1e21", "3"}},
	{"string", []string{`"a"`, `""`, `"12"`, `"é😀b"`, `"#0.0"`, `"[Y]-[M01]"`}},
	{"boolean", []string{"true", "false"}},
	{"null", []string{"null"}},
	{"array", []string{"[1,2,3]", "[]", `["a","b"]`, "[1]", `[{"a":1},{"a":2}]`}},
	{"integer-array", []string{`[$count([1,2]), 1.5, $length("abc")]`, `["ab","c"].$length($)`, `$map([5,6], function($v,$i){$i})`, `[$length("a"), $length("")]`}},
	{"nested-array", []string{"[[1,2],[3]]", "[[]]", `[[["x"]],1]`}},
	{"object", []string{`{"a":1}`, "{}", `{"a":{"b":[1,2]},"c":"x"}`}},
	{"function", []string{"$sum", "function($x){$x}", "function($x,$y){$x}", "$substring(?,1)", "/a/", "function(){1}", "($string ~> $uppercase)", "|$|{\"t\":1}|"}},
	{"missing", []string{"nothing", "$nothing"}},
	{"input", []string{"$", "a", "b.c", "*", "**"}},
	// a null that is a member of an input array, selected by position (always
	// evaluated on the sweep document that has one)
	{"input-null", []string{"$[0]", "$[2][0]"}},
}

func sweepSize() int64 {
	var n int64
	for _, b := range gen.Builtins {
		hi := b.Max
		if hi < 0 {
			hi = 2
		}
		hi++
		if hi > 3 {
			hi = 3
		}
		p := int64(1)
		for a := 0; a <= hi; a++ {
			n += p
			p *= int64(len(argKinds))
		}
	}
	// every kind of function value called with 0..2 arguments
	for range fnValues {
		p := int64(1)
		for a := 0; a <= 2; a++ {
			n += p
			p *= int64(len(argKinds))
		}
	}
	return n
}

// function values of every kind (built-in, lambdas, typed lambdas, partial,
// composition, transform, regex, the next() of a match)
var fnValues = []string{
	"$sum", "function(){1}", "function($x){$x}", "function($x,$y,$z){[$x,$y,$z]}", "function($x)<n>{$x}", "function($x,$y)<s-n?>{$x}", "function($x)<x+>{$x}",
	"$substring(?, 1)", "$append(?, ?)", "($string ~> $uppercase)", "($sum ~> $string ~> $length)", "(function($x){$x} ~> $count)", "|$|{\"t\":1}|", "/a(b)?/", "/a/(\"abab\").next",
	"($uppercase ~> /A/)", "$each(?, function($v,$k){$k})",
	// function values that went through a library function (stored by value)
	"$filter($sum, function($f){true})[0]", "($reduce($sum, function($a,$b){$b}) ~> $string)", "($string ~> $shuffle($uppercase)[0])", "$distinct($sum)", "$single($sum, function($f){true})", "$reverse([$sum, $max])[0]", "$sort($count)[0]",
}

// sweepCase returns the i-th call of the systematic sweep.
func sweepCase(i int64, r *prng.R) (string, string) {
	for _, b := range gen.Builtins {
		hi := b.Max
		if hi < 0 {
			hi = 2
		}
		hi++
		if hi > 3 {
			hi = 3
		}
		p := int64(1)
		for a := 0; a <= hi; a++ {
			if i < p {
				args := make([]string, a)
				kinds := make([]string, a)
				for j := a - 1; j >= 0; j-- {
					k := argKinds[i%int64(len(argKinds))]
					i /= int64(len(argKinds))
					kinds[j] = k.Kind
					args[j] = k.Alts[r.Intn(len(k.Alts))]
				}
				if b.Name == "pad" {
					// the width is a size-like parameter: keep it small
					for j := range args {
						if kinds[j] == "number" {
							args[j] = []string{"1", "-5", "0", "7", "2.5"}[r.Intn(5)]
						}
						if kinds[j] == "input" {
							args[j] = "k" // never a large number in the sweep documents
						}
					}
				}
				prog := "$" + b.Name + "(" + strings.Join(args, ", ") + ")"
				if r.Intn(4) == 0 {
					prog = "a." + prog // context-defaulting form under a path
				}
				return prog, fmt.Sprintf("sweep:%s/%d", b.Name, a)
			}
			i -= p
			p *= int64(len(argKinds))
		}
	}
	for fi, f := range fnValues {
		p := int64(1)
		for a := 0; a <= 2; a++ {
			if i < p {
				args := make([]string, a)
				for j := a - 1; j >= 0; j-- {
					k := argKinds[i%int64(len(argKinds))]
					i /= int64(len(argKinds))
					args[j] = k.Alts[r.Intn(len(k.Alts))]
				}
				call := "(" + f + ")(" + strings.Join(args, ", ") + ")"
				if strings.HasPrefix(f, "$") && !strings.ContainsAny(f, "(~ ") {
					call = f + "(" + strings.Join(args, ", ") + ")"
				}
				if r.Intn(4) == 0 && a > 0 {
					call = args[0] + " ~> (" + f + ")(" + strings.Join(args[1:], ", ") + ")"
				}
				return call, fmt.Sprintf("sweep-fnvalue:%d/%d", fi, a)
			}
			i -= p
			p *= int64(len(argKinds))
		}
	}
	return "1", "sweep:none"
}

var sweepDocs = []string{
	`{"a":"hello","b":{"c":[1,2,3]},"k":[{"a":1},{"a":2}]}`,
	`{"a":[1,[2,[3]]],"b":{"c":null},"k":{}}`,
	`[{"a":5},{"a":[6,7]},[{"a":8}]]`,
	`{"a":1500000000000,"b":{"c":"2017-05-15T15:12:59.152Z"}}`,
	`null`,
	`[null,{"a":null},[null,2]]`,
}

type evalCase struct {
	prog   string
	doc    string
	kind   string
	det    bool
	tags   []string
	traits jast.Traits
	oneMem bool // the document's objects have at most one member
}

func c09Case(i int64, seed uint64, nSweep int64) evalCase {
	if i < nSweep {
		// the sweep is run once per sweep document, so every (built-in, arity,
		// kind tuple) meets every document; the alternatives of a kind are
		// drawn afresh in every round
		one := nSweep / int64(len(sweepDocs))
		base, round := i%one, i/one
		r := prng.New(seed, 0xC09A, uint64(i))
		p, k := sweepCase(base, r)
		doc := sweepDocs[(base+round)%int64(len(sweepDocs))]
		if strings.Contains(p, "$[0]") || strings.Contains(p, "$[2][0]") {
			doc = sweepDocs[len(sweepDocs)-1] // the document with null members
		}
		return evalCase{prog: p, doc: doc, kind: k, det: !strings.Contains(p, "$random") && !strings.Contains(p, "$shuffle") && !strings.Contains(p, "$now") && !strings.Contains(p, "$millis")}
	}
	i -= nSweep
	if i%4 == 3 {
		r := prng.New(seed, 0xC09E, uint64(i))
		if i%32 == 31 {
			p, d, k := libArrayCase(r)
			return evalCase{prog: p, doc: d, kind: k, det: !strings.Contains(p, "$shuffle")}
		}
		p, d, k := edgeCase(r)
		return evalCase{prog: p, doc: d, kind: k, det: true}
	}
	r := prng.New(seed, 0xC09B, uint64(i))
	det := i%2 == 0
	depth := 3 + int(i%4)
	g := gen.NewChaos(r, depth, det)
	tree, prog := g.Program(jast.Style{Space: r.Intn(3), Single: r.Intn(4) == 0, Rnd: r.Intn})
	oneMem := i%3 != 0
	doc := gen.JSON(gen.Doc(r, gen.DocOpts{Nulls: true, OneMember: oneMem}))
	var tags []string
	for t := range g.Tags {
		tags = append(tags, t)
	}
	return evalCase{prog: prog, doc: doc, kind: "chaos", det: det, tags: tags, traits: jast.TraitsOf(tree), oneMem: oneMem}
}

func decodeDoc(doc string) interface{} {
	var v interface{}
	d := json.NewDecoder(strings.NewReader(doc))
	if err := d.Decode(&v); err != nil {
		return nil
	}
	return v
}

func init() {
	rule := "cases: (a) systematic sweep of every built-in x every arity 0..min(declared+1,3) x every tuple of 12 argument kinds (number,string,boolean,null,array,array of Go integers as the library produces them,nested array,object,function,missing,input path,null member of an input array), exhaustive over kind tuples, once per sweep document (6 documents: strings, nested arrays, array root, instants, null, null members); " +
		"(b) PRNG-generated type-chaotic programs of depth 3..6 over every node type (paths, wildcards, predicates, sorts, groupings, transforms, lambdas with signatures, partials, chains, functions used as data, bounded recursion) on generated JSON documents with nulls, empty containers and arrays nested in arrays. " +
		"(c) every fourth generated case probes the edges of the picture grammars and of the matcher protocol: $fromMillis/$toMillis with generated date pictures (width modifiers up to 100 and malformed, presentation strings of up to 70 digits, non-ASCII digit families) over extreme instants, $formatNumber with pictures of up to 70+70 digits, 25-digit exponents, 300 mandatory digits and malformed pictures over extreme doubles, $formatBase/$round/$number at the edges of their domains, and $split/$replace/$match/$contains called with user-written matcher functions whose match/start/end/groups/next fields are ill-typed, out of range, out of order or absent, and name steps, predicates, wildcards and compositions on function values (direct, and stored by value after $distinct/$sort/$single/$reverse) whose names coincide with the fields of the evaluator's function objects. " +
		"non-trivial = the program compiled and Eval was actually entered (compile errors are not counted); distinct by (program text, input)"
	fw.Register(&fw.Prop{
		ID: "C09", Title: "Eval is total", Rule: rule,
		Assumptions: []string{"size-like parameters ($pad width, range bounds) are kept small by the generator, as the property's quantifier prescribes", "user lambdas cannot recurse (unique binding names) except one explicit bounded-counter recursion shape", "non-termination is judged on process CPU time: 2 s in the shard, then 30 s alone"},
		Plan: func(tier string, seed uint64) *fw.Plan {
			nSweep := sweepSize() * int64(len(sweepDocs))
			nRand := int64(54000)
			if tier == "thorough" {
				nRand = 4000000
			}
			return &fw.Plan{N: nSweep + nRand,
				Subspaces: []string{fmt.Sprintf("all %d (built-in, arity<=3, argument-kind tuple) combinations over %d kinds", nSweep, len(argKinds))},
				Run: func(i int64, r *fw.Rec) {
					c := c09Case(i, seed, nSweep)
					c09Run(r, c)
				}}
		},
	})
	fw.Register(&fw.Prop{
		ID: "C10", Title: "Results are JSON-representable; ErrUndefined iff no value; EvalBytes agrees",
		Rule: rule + "; plus malformed input byte strings for EvalBytes (truncations, trailing garbage, bare words, invalid UTF-8 are those that encoding/json itself rejects)",
		Assumptions: []string{"a nested typed-nil *interface{} (the port's documented representation of JSON null, jsonata-test/README.md) marshals as null and is tolerated inside containers (counted in evidence); at the top level, and nil slices anywhere, are violations", "EvalBytes/Eval agreement is judged on deterministic programs only", "the 'ErrUndefined iff no value' clause is judged against the reference evaluator in the model-based checks (C01, C02, C12-C15), here only its consistency (nil result with ErrUndefined)"},
		Plan: func(tier string, seed uint64) *fw.Plan {
			nSweep := sweepSize() * int64(len(sweepDocs))
			nRand := int64(54000)
			if tier == "thorough" {
				nRand = 2600000
			}
			nBad := int64(2000)
			nNF := int64(len(c10NonFinite) * len(c10NonFiniteDocs))
			nNV := int64(len(c10NoValue))
			nHV := int64(len(c10HasValue))
			return &fw.Plan{N: nSweep + nRand + nBad + nNF + nNV + nHV,
				Subspaces: []string{fmt.Sprintf("all %d (built-in, arity<=3, argument-kind tuple) combinations", nSweep), fmt.Sprintf("%d arithmetic programs whose mathematical result is not a finite number", nNF), fmt.Sprintf("%d programs that denote no value", nNV), fmt.Sprintf("%d programs that denote a value although a sub-expression denotes none", nHV)},
				Run: func(i int64, r *fw.Rec) {
					if i >= nSweep+nRand+nBad+nNF+nNV {
						c10HasValueProbe(r, c10HasValue[i-nSweep-nRand-nBad-nNF-nNV])
						return
					}
					if i >= nSweep+nRand+nBad+nNF {
						c10NoValueProbe(r, c10NoValue[i-nSweep-nRand-nBad-nNF])
						return
					}
					if i >= nSweep+nRand+nBad {
						j := i - nSweep - nRand - nBad
						c10Run(r, evalCase{prog: c10NonFinite[j/int64(len(c10NonFiniteDocs))], doc: c10NonFiniteDocs[j%int64(len(c10NonFiniteDocs))], kind: "non-finite-probe", det: true})
						return
					}
					if i >= nSweep+nRand {
						c10Malformed(r, i-nSweep-nRand, seed)
						return
					}
					c := c09Case(i, seed, nSweep)
					if !c.det && c.kind == "chaos" {
						// regenerate deterministically: C10 compares Eval with EvalBytes
						rr := prng.New(seed, 0xC10B, uint64(i))
						g := gen.NewChaos(rr, 3+int(i%4), true)
						var tree jast.Node
						tree, c.prog = g.Program(jast.Style{Space: rr.Intn(3), Rnd: rr.Intn})
						c.traits = jast.TraitsOf(tree)
						c.det = true
						c.tags = nil
						for t := range g.Tags {
							c.tags = append(c.tags, t)
						}
					}
					c10Run(r, c)
				}}
		},
	})
}

func c09Run(r *fw.Rec, c evalCase) {
	r.Begin(c.prog, c.doc)
	r.Tag(c.kind)
	r.Tag(c.tags...)
	e, co := obs.Compile(c.prog)
	if e == nil {
		r.Outcome(co.Class())
		if co.Kind == "panic" {
			r.Count("compile_panics_(C08)", 1)
		}
		r.Held() // nothing to judge for C09: Eval was not reached
		return
	}
	r.Nontrivial(c.prog + "\x00" + c.doc)
	in := decodeDoc(c.doc)
	o := obs.Eval(e, in)
	r.Outcome(o.Class())
	if o.Kind == "panic" {
		r.ViolationStack("panic:"+o.Panic.Site+":"+o.Panic.Class, "Eval panicked: "+o.Panic.Value, o.Panic.Stack, nil)
		return
	}
	r.Held()
	r.Sample(o.Kind+":"+strings.SplitN(c.kind, ":", 2)[0], map[string]any{"prog": c.prog, "input": c.doc, "outcome": o.String()})
}

func invalidUTF8(v interface{}) bool {
	switch x := v.(type) {
	case string:
		return !utf8.ValidString(x)
	case []interface{}:
		for _, e := range x {
			if invalidUTF8(e) {
				return true
			}
		}
	case map[string]interface{}:
		for k, e := range x {
			if !utf8.ValidString(k) || invalidUTF8(e) {
				return true
			}
		}
	}
	return false
}

// programs that denote no value (a missing member, a built-in applied to a
// missing argument, an empty selection ...): Eval must report ErrUndefined,
// not a null that appears from nowhere
var c10NoValue = []string{`nothing`, `a.nothing`, `$lookup({"a":1},"b")`, `$lookup(a,"b")`, `$distinct(nothing)`, `$sum(nothing)`, `$max([])`, `$min([])`, `$average([])`, `$string(nothing)`,
	`$uppercase(nothing)`, `$number(nothing)`, `$keys(nothing)`, `[][0]`, `[1,2][5]`, `{"a":1}.b`, `$filter(nothing, function($v){true})`, `nothing ~> $uppercase()`, `(1; nothing)`,
	`true ? nothing : 1`, `false ? 1`, `function(){nothing}()`, `$map(nothing,$string)`, `$reduce(nothing, $append)`, `$spread(nothing)`, `$each(nothing, function($v){$v})`,
	`$sift(nothing, function($v){true})`, `$merge(nothing)`, `$reverse(nothing)`, `$sort(nothing)`, `$lookup(nothing,"a")`, `$substring(nothing,1)`, `$abs(nothing)`, `$round(nothing)`,
	`$power(nothing,2)`, `$fromMillis(nothing)`, `$toMillis(nothing)`, `$type(nothing)`, `$length(nothing)`, `$trim(nothing)`, `$split(nothing,",")`, `$join(nothing)`,
	`$replace(nothing,"a","b")`, `$formatNumber(nothing,"0")`, `$base64encode(nothing)`, `$boolean(nothing)`, `$shuffle(nothing)`, `$single(nothing, function($v){true})`, `$append(nothing,nothing)`,
	// a callback that yields no value
	`$reduce([1,2], function($a,$b){$b.missing})`, `$reduce([1,2,3], function($a,$b){nothing})`, `$reduce([{"a":1}], function($a,$b){nothing}, 1)`, `$reduce([], function($a,$b){$a})`,
	`$reduce(nothing, function($a,$b){$a}, nothing)`, `function($x){$x.missing}(a)`, `[1] ~> $map(function($v){nothing}) ~> $max()`, `$sort([]) ~> $max()`, `(nothing ~> $string) ~> $length`,
	`$lookup({"a":{"b":1}}, "a").c`, `$spread({}).x`, `$each({}, function($v){$v}).x`, `$zip([]).x`, `$match("a", /b/).match`}

func c10NoValueProbe(r *fw.Rec, prog string) {
	doc := `{"a":{}}`
	r.Begin(prog, doc)
	r.Tag("no-value-probe")
	r.Nontrivial(prog)
	o := obs.Run(prog, decodeDoc(doc))
	r.Outcome(o.Class())
	if o.Kind != "undefined" {
		r.Violation("no-value-not-reported-as-ErrUndefined", prog+" denotes no value but Eval returned "+o.String(), nil)
		return
	}
	r.Held()
}

// fnAsEmpty replaces function values in normalised data by empty strings.
func fnAsEmpty(v interface{}) interface{} {
	switch x := v.(type) {
	case obs.Fn:
		return ""
	case []interface{}:
		out := make([]interface{}, len(x))
		for i, e := range x {
			out[i] = fnAsEmpty(e)
		}
		return out
	case map[string]interface{}:
		out := make(map[string]interface{}, len(x))
		for k, e := range x {
			out[k] = fnAsEmpty(e)
		}
		return out
	}
	return v
}

func c10Run(r *fw.Rec, c evalCase) {
	r.Begin(c.prog, c.doc)
	r.Tag(c.kind)
	r.Tag(c.tags...)
	e, co := obs.Compile(c.prog)
	if e == nil {
		r.Outcome(co.Class())
		r.Held()
		return
	}
	r.Nontrivial(c.prog + "\x00" + c.doc)
	in := decodeDoc(c.doc)
	o := obs.Eval(e, in)
	r.Outcome(o.Class())
	if o.Kind == "panic" {
		r.Count("eval_panics_(C09)", 1)
		r.Inconclusive("Eval panicked (a C09 event): " + o.Panic.Site)
		return
	}
	bad := false
	notes := map[string]int{}
	var evalJSON []byte
	var merr error
	switch o.Kind {
	case "value":
		n := obs.Normalize(o.Val, notes)
		if rv := reflect.ValueOf(o.Val); rv.IsValid() && rv.Kind() == reflect.Ptr && rv.IsNil() {
			// Eval itself turns the evaluator's null into a plain nil; a typed
			// nil pointer at the top level is the internal representation leaking
			r.Violation("foreign-value:typed-nil-pointer-as-result", fmt.Sprintf("Eval returned a typed nil pointer (%T) instead of nil for a null result", o.Val), nil)
			bad = true
		}
		if ft, ok := obs.HasForeign(n); ok {
			r.Violation("foreign-value:"+ft, "Eval returned nil error with a value outside the JSON-representable set: "+ft+" in "+obs.ShowNorm(n), nil)
			bad = true
		}
		for k, v := range notes {
			if k == "typed-nil-null" {
				r.Count("tolerated:"+k, int64(v))
			}
		}
		if notes["nil-slice"] > 0 {
			// an array the language itself sees as empty ($type "array", $count 0)
			// whose JSON encoding is null, not []
			r.Violation("empty-array-encodes-as-null", "the result contains a nil slice: the empty array it stands for is encoded as null by json.Marshal/EvalBytes; result "+obs.ShowNorm(n), nil)
			bad = true
		}
		if pi := fw.Guard(func() { evalJSON, merr = json.Marshal(o.Val) }); pi != nil {
			r.Violation("marshal-panic", "json.Marshal of the result panicked: "+pi.Value, nil)
			bad = true
		} else if merr != nil {
			r.Violation("marshal-error", "json.Marshal of the result failed: "+merr.Error(), nil)
			bad = true
		} else if invalidUTF8(n) {
			// a user-written matcher can cut a string inside a character, and
			// $base64decode can produce arbitrary bytes: such strings have no
			// JSON encoding of their own (encoding/json substitutes U+FFFD)
			r.Count("results_with_strings_that_are_not_valid_UTF-8_(encoding_not_compared)", 1)
		} else if _, foreign := obs.HasForeign(n); !foreign {
			// the encoding must denote the value, with every function value
			// (however it is held: by pointer or by value) standing for ""
			var back interface{}
			if err := json.Unmarshal(evalJSON, &back); err != nil || !obs.Equal(obs.Normalize(back, nil), fnAsEmpty(n)) {
				r.Violation("encoding-denotes-other-value", "json.Marshal of the result gives "+clipb(evalJSON)+", which does not denote the result "+obs.ShowNorm(n)+" with function values as empty strings", nil)
				bad = true
			}
		}
	case "undefined", "error":
		if o.Val != nil {
			r.Violation("error-with-result", fmt.Sprintf("Eval returned error %v together with a non-nil result %v", o.Err, obs.Show(o.Val)), nil)
			bad = true
		}
	}
	// EvalBytes agreement. Programs whose result legitimately depends on Go map
	// iteration order (they iterate an object with several members) are not
	// compared; programs in which several members of one constructor can fail
	// are compared on success/failure only.
	orderDep := c.kind != "chaos" && orderLeaky(c.prog) || c.kind == "chaos" && c.traits.Iterates && (!c.oneMem || c.traits.MultiPair)
	errChoice := c.kind != "chaos" && orderLeaky(c.prog) || c.kind == "chaos" && (c.traits.MultiPair || c.traits.Iterates && !c.oneMem)
	if orderDep {
		r.Count("evalbytes_comparison_skipped_(map-order-dependent_program)", 1)
	}
	if c.det && !bad && !orderDep {
		r.Evals(1)
		var out []byte
		var berr error
		if pi := fw.Guard(func() { out, berr = e.EvalBytes([]byte(c.doc)) }); pi != nil {
			r.Inconclusive("EvalBytes panicked (a C09 event): " + pi.Site)
			return
		}
		r.Count("evalbytes_compared", 1)
		switch {
		case o.Kind == "value" && berr != nil:
			r.Violation("evalbytes-fails", "Eval succeeded but EvalBytes failed: "+berr.Error(), nil)
			bad = true
		case o.Kind != "value" && berr == nil:
			r.Violation("evalbytes-succeeds", fmt.Sprintf("Eval failed (%v) but EvalBytes returned %s", o.Err, out), nil)
			bad = true
		case o.Kind == "undefined" && berr != jsonata.ErrUndefined && !errChoice:
			r.Violation("evalbytes-undefined", fmt.Sprintf("Eval reported ErrUndefined but EvalBytes reported %v", berr), nil)
			bad = true
		case o.Kind == "value":
			if !jsonEqual(out, evalJSON, false) {
				r.Violation("evalbytes-differs", fmt.Sprintf("EvalBytes returned %s but Eval's value encodes as %s", clipb(out), clipb(evalJSON)), nil)
				bad = true
			}
		case o.Kind == "error":
			if obs.ErrClassOf(berr) != o.ErrClass && !errChoice {
				r.Violation("evalbytes-error-kind", fmt.Sprintf("Eval error %v (%s) but EvalBytes error %v (%s)", o.Err, o.ErrClass, berr, obs.ErrClassOf(berr)), nil)
				bad = true
			}
		}
	}
	if c.det && !bad && !orderDep && !errChoice && len(c.prog)%3 == 0 {
		bad = c10Definedness(r, c.prog, in, o)
	}
	if !bad {
		r.Held()
	}
	r.Sample(o.Kind+":"+strings.SplitN(c.kind, ":", 2)[0], map[string]any{"prog": c.prog, "input": c.doc, "outcome": o.String()})
}

func clipb(b []byte) string {
	if len(b) > 300 {
		return string(b[:300]) + "…"
	}
	return string(b)
}

// orderLeaky: the program iterates objects, so array order may legitimately
// differ between two evaluations (Go map order).
func orderLeaky(prog string) bool {
	for _, s := range []string{"*", "$keys", "$each", "$spread", "$sift", "$merge", "$lookup", "{"} {
		if strings.Contains(prog, s) {
			return true
		}
	}
	return false
}

func jsonEqual(a, b []byte, leaky bool) bool {
	if bytes.Equal(a, b) {
		return true
	}
	var va, vb interface{}
	if json.Unmarshal(a, &va) != nil || json.Unmarshal(b, &vb) != nil {
		return false
	}
	if leaky {
		return looseEqual(va, vb)
	}
	return obs.Equal(obs.Normalize(va, nil), obs.Normalize(vb, nil))
}

// looseEqual compares arrays as multisets at every level.
func looseEqual(a, b interface{}) bool {
	switch a := a.(type) {
	case []interface{}:
		bb, ok := b.([]interface{})
		if !ok || len(a) != len(bb) {
			return false
		}
		used := make([]bool, len(bb))
	outer:
		for _, x := range a {
			for j, y := range bb {
				if !used[j] && looseEqual(x, y) {
					used[j] = true
					continue outer
				}
			}
			return false
		}
		return true
	case map[string]interface{}:
		bb, ok := b.(map[string]interface{})
		if !ok || len(a) != len(bb) {
			return false
		}
		for k, x := range a {
			y, ok := bb[k]
			if !ok || !looseEqual(x, y) {
				return false
			}
		}
		return true
	}
	return obs.Equal(obs.Normalize(a, nil), obs.Normalize(b, nil))
}

var malformedSeeds = []string{`{"a":1}`, `[1,2,3]`, `"str"`, `12.5`, `true`, `null`, `{"a":{"b":[1,{"c":"é"}]}}`, `[[1],[2,[3]]]`}

func c10Malformed(r *fw.Rec, i int64, seed uint64) {
	rr := prng.New(seed, 0xC10E, uint64(i))
	s := malformedSeeds[rr.Intn(len(malformedSeeds))]
	var in string
	switch rr.Intn(8) {
	case 0:
		in = s[:rr.Intn(len(s))] // truncation (possibly empty)
	case 1:
		in = s + rr.Pick("x", "}", "]", ",", "1", "\"", "{}")
	case 2:
		in = rr.Pick("nul", "tru", "undefined", "NaN", "Infinity", "'a'", "{a:1}", "[1,]", "{\"a\":1,}", "01", "1.", ".5", "+1", "0x10")
	case 3:
		in = "\"\xff\xfe\"" // invalid UTF-8 is replaced, not rejected, by encoding/json
	case 4:
		in = strings.Replace(s, ":", " ", 1)
	case 5:
		in = strings.Replace(s, ",", " ", 1)
	case 6:
		in = ""
	default:
		in = "\x00" + s
	}
	prog := rr.Pick("$", "a", "$count($)", "1", "$string($)")
	r.Begin(prog, in)
	r.Tag("malformed-bytes")
	e, _ := obs.Compile(prog)
	if e == nil {
		r.Inconclusive("probe program did not compile")
		return
	}
	var probe interface{}
	jerr := json.Unmarshal([]byte(in), &probe)
	var out []byte
	var berr error
	if pi := fw.Guard(func() { out, berr = e.EvalBytes([]byte(in)) }); pi != nil {
		r.ViolationStack("evalbytes-panic", "EvalBytes panicked on input bytes: "+pi.Value, pi.Stack, nil)
		return
	}
	r.Nontrivial(prog + "\x00" + in)
	if jerr != nil {
		r.Outcome("rejected-input")
		if berr == nil {
			r.Violation("evalbytes-accepts-invalid-json", fmt.Sprintf("EvalBytes accepted input that is not valid JSON and returned %s", clipb(out)), nil)
			return
		}
		if berr == jsonata.ErrUndefined {
			r.Violation("evalbytes-invalid-json-undefined", "EvalBytes reported ErrUndefined for input that is not valid JSON", nil)
			return
		}
	} else {
		r.Outcome("valid-input")
	}
	r.Held()
	r.Sample("malformed", map[string]any{"prog": prog, "bytes": in, "json_valid": jerr == nil, "evalbytes_error": fmt.Sprint(berr)})
}

// programs whose mathematical result is infinite or not a number: whatever the
// library returns for them, a nil-error result must still be a finite number
var c10NonFinite = []string{
	"x % z", "z % z", "5 % 0", "big * big", "-big * big", "z / z", "x / z", "-x / z", "big + big", "-big - big", "$power(big, 2)", "$power(z, -1)", "$power(-8, 1/3)",
	"$sqrt(-x)", "$sum([big, big])", "$average([big, big, -1])", "$max([big, big]) * 2", "[x % z]", "{\"v\": z / z}", "(x % z) = (x % z)", "$string(x % z)", "$round(big * 10)",
	"$abs(-big * 10)", "$floor(z / z)", "$number(\"1e999\")", "$formatNumber(x / z, \"0.0\")", "$formatBase(x / z)", "arr.($ % $$.z)", "$map(arr, function($v){$v / $$.z})", "$reduce(arr, function($a,$b){$a * $$.big * $b})",
	"$sort(arr, function($l,$r){($l % $$.z) > 1})", "arr^($ % $$.z)", "arr[$ % $$.z]", "$$.big ~> $power(3)", "tiny / big / big", "tiny * tiny",
}

var c10NonFiniteDocs = []string{
	`{"x":5,"z":0,"big":1e308,"tiny":5e-324,"arr":[1,2,3]}`,
	`{"x":-2.5,"z":-0,"big":1.7976931348623157e308,"tiny":1e-300,"arr":[0]}`,
}
