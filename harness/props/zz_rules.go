package props

import "verif/harness/fw"

// Case families added after a property's rule text was written (seeding round
// 12); the text is part of every evidence file, so it has to name them.
func init() {
	for id, add := range map[string]string{
		"C02": "grid 6: (a[P])[Q], a predicate on a parenthesised filtered step, 3 inputs x 5 x 5 predicates x 4 forms",
		"C04": "string operands rotate over 24 contents that end in an escaped backslash, hold either quote character, escapes, or spell operators, brackets and comment openers",
		"C05": "regex histories: one Expr holding a regex literal (12 alternations whose first matching branch is not the longest, with branches that match empty for some subjects only; 12 uses: $match, $replace, $split, $contains, application, next) evaluated on 4..9 subjects, each outcome compared with a fresh Expr's",
		"C07": "the input and the registered variable hold arrays that overlap in memory (nums/strs/list are the first items of numsAll/strsAll/listAll)",
		"C08": "tokens that spell the placeholders of the error message templates and formatting verbs; deep nesting: one of 20 prefixes (and its closer) repeated 30..150 times around an operand",
		"C10": "error probes: programs that denote an error (alone, inside $exists, inside an array constructor) must report one, not a value and not the absence of one",
		"C11": "related texts: ten variants of one generated text that differ only in which space-like character (U+0020, U+00A0, U+2028, U+2029, U+3000, U+1680, U+2003, U+FEFF, U+0085, U+200B) stands raw inside its strings and keys, compiled and evaluated one after the other in one process",
		"C13": "$sort(a, f) on plain numbers and strings with strict weak orders other than the default one; a key that cannot be ordered on the only item of a sequence",
		"C14": "$each with a callback that yields for a picked subset of the members only",
		"C16": "U+FFFD is a member of the alphabet",
		"C17": "escaped metacharacters and classes holding brackets, braces and a backslash; subjects hold brackets, braces and backslashes",
		"C18": "four pinned inputs (neighbours of rounding ties whose scaled value is not a double) run at every seed",
		"C19": "seven markers with a width modifier and no presentation on components whose default presentations differ ([F,*-3] [M,*-3] [m,*-3] [D,2] [s,2] [H,2] [F,2])",
	} {
		if p := fw.Lookup(id); p != nil {
			p.Rule += " Added later: " + add + "."
		}
	}
}
