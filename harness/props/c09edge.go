package props

import (
	"fmt"
	"strings"

	"verif/harness/jast"
	"verif/harness/prng"
)

// C09/C10 family (c): the edges of the picture grammars and of the matcher
// protocol. Sizes stay bounded (widths and digit counts <= 100) so that
// termination is expected.

var edgeWidths = []string{",*-64", ",64", ",70-80", ",*-100", ",100", ",19", ",*-19", ",20", ",*-18", ",63-64", ",*-65", ",0", ",*", ",*-*", ",-1", ",1-0", ",5-2", ",99999999999999999999", ",2-", ",a"}

func edgeDatePicture(r *prng.R) string {
	var sb strings.Builder
	n := r.Range(1, 3)
	for i := 0; i < n; i++ {
		sb.WriteString(c05DateLit[r.Intn(len(c05DateLit))])
		c := c05DateComps[r.Intn(len(c05DateComps))]
		ps := c05DatePres[c]
		pres := ps[r.Intn(len(ps))]
		switch r.Intn(8) {
		case 0:
			pres = strings.Repeat("0", r.Range(18, 70)) + "1"
		case 1:
			pres = strings.Repeat("#", r.Range(1, 70)) + "0"
		case 2:
			pres = strings.Repeat("9", r.Range(18, 66))
		case 3:
			pres = r.Pick("٠١", "０１", "Ⅰ", "α", "①", "一", "*", "0,0", ",", "1,", "𝟎𝟏")
		}
		w := c05DateWidth[r.Intn(len(c05DateWidth))]
		if r.Intn(2) == 0 {
			w = edgeWidths[r.Intn(len(edgeWidths))]
		}
		switch r.Intn(12) {
		case 0:
			// whitespace inside a marker is ignored; a marker of nothing else is empty
			sb.WriteString("[" + r.Pick(" ", "\t", " \n ", "  ", "\r\n") + "]")
		case 1:
			sb.WriteString("[ " + string(c) + " " + pres + " " + w + " ]")
		case 2:
			sb.WriteString("[" + string(c) + "\n" + pres + w + "]")
		default:
			sb.WriteString("[" + string(c) + pres + w + "]")
		}
	}
	return sb.String()
}

func edgeNumPicture(r *prng.R) string {
	switch r.Intn(8) {
	case 0:
		return strings.Repeat("#", r.Range(1, 70)) + strings.Repeat("0", r.Range(0, 70)) + "." + strings.Repeat("0", r.Range(0, 70)) + strings.Repeat("#", r.Range(0, 30))
	case 1:
		return "0." + strings.Repeat("0", r.Range(15, 40)) + "e" + strings.Repeat("0", r.Range(1, 25))
	case 2:
		return strings.Repeat("#,", r.Range(1, 40)) + "0"
	case 3:
		return strings.Repeat("0", r.Range(300, 330)) // wider than any double
	case 4:
		return r.Pick("#,###", "#,##.##", "##,#", "#,#", "#,####", "0e0", "#e0", "e0", "0e", "0.e0", ".0e0", "0%e0", "%", "‰", ".", ",", "0,", ",0", "0.0,0", "#.#e#", "0e0e0", "00e+0", "0;0;0", ";0", "0;", "-0", "0-", "''", "'0'", "0'x'0")
	case 5:
		return genPicture(r).text() + r.Pick("", ";", "e", "%", ".", "0", "#")
	}
	return genPicture(r).text()
}

var edgeNums = []string{"0", "-0", "1", "-1", "0.5", "1e21", "-1e21", "1e-7", "1.7976931348623157e308", "5e-324", "9007199254740993", "123456789.123456789", "0.000001", "999999.9999995", "1e100", "-1e-100", "4.35", "2.5", "1e15", "1e16"}

var edgeMillis = []string{"0", "-1", "1538323085762", "-62135596800000", "253402300799999", "8.64e15", "-8.64e15", "1e18", "-1e18", "9.2e18", "1e300", "0.5", "-0.5", "951782400000"}

// a matcher function in the documented protocol, with chaotic field values
func edgeMatcher(r *prng.R, d int) string {
	pos := func() string {
		return r.Pick("0", "1", "2", "3", "10", "-1", "1e10", "-1e10", "1.5", `"1"`, "nothing", "4", "5", "1e300", "true")
	}
	match := r.Pick(`"a"`, `""`, `"abc"`, "1", "nothing", `"é"`, "$s")
	groups := r.Pick("[]", `["a"]`, `["a","b","c"]`, "[1]", `"x"`, "nothing", "[[]]", `[["a"]]`, "{}")
	next := "function(){nothing}"
	switch r.Intn(8) {
	case 0:
		next = "nothing"
	case 1:
		next = r.Pick("1", "$sum", `"next"`, "function($x){$x}", "/a/")
	case 2, 3, 4:
		if d < 3 {
			next = "function(){" + edgeMatchObject(r, d+1) + "}"
		}
	}
	_ = pos
	return "function($s){" + edgeMatchObjectWith(r, match, pos(), pos(), groups, next) + "}"
}

func edgeMatchObject(r *prng.R, d int) string {
	m := edgeMatcher(r, d)
	// strip the function($s){ ... } wrapper
	return m[len("function($s){") : len(m)-1]
}

func edgeMatchObjectWith(r *prng.R, match, start, end, groups, next string) string {
	fields := []string{`"match":` + match, `"start":` + start, `"end":` + end, `"groups":` + groups, `"next":` + next}
	// sometimes a field is absent altogether
	if r.Intn(6) == 0 {
		k := r.Intn(len(fields))
		fields = append(fields[:k], fields[k+1:]...)
	}
	return "{" + strings.Join(fields, ",") + "}"
}

func edgeCase(r *prng.R) (prog, doc, kind string) {
	str := func(s string) string { return jast.QuoteStr(s, false) }
	doc = `{"s":"abcabc","t":"é😀 x","n":12.5}`
	switch r.Intn(12) {
	case 10, 11:
		// name steps that coincide with (unexported) fields of the evaluator's
		// function objects, and function values that went through a library
		// function (stored by value)
		fn := r.Pick("$sum", "function($a){1}", "$substring(?,1)", "/a(b)/", "($string ~> $uppercase)", "|a|{\"b\":1}|", "$now", "/a/(\"aa\")", "$distinct($sum)", "$sort($max)[0]",
			"$single($sum, function($f){true})", "$reverse([$sum,$max])[0]", "$distinct([$sum,1])[0]", "function($x)<n:n>{$x}")
		field := r.Pick("name", "fn", "params", "isVariadic", "undefinedHandler", "contextHandler", "context", "body", "paramNames", "typed", "env", "args",
			"pattern", "updates", "deletes", "re", "callables", "callableName", "callableMarshaler", "match", "start", "end", "groups", "next", "t", "isOpt", "Name", "Type")
		e := "(" + fn + ")." + field
		switch r.Intn(12) {
		case 0:
			e += "[0]"
		case 1:
			e += ".*"
		case 2:
			e += " = [\"a\"]"
		case 3:
			e = "$append(" + e + ", 1)"
		case 4:
			e = "$count(" + e + ")"
		case 5:
			e = "$string(" + e + ")"
		case 6:
			e += "." + field
		case 7:
			e = "[" + e + "]"
		case 8:
			e = "{\"k\": " + e + "}"
		case 9:
			e = "(" + fn + " ~> $string)(s)"
		case 10:
			e = "($type ~> " + fn + ")(s)"
		}
		return e, doc, "edge:function-object-member"
	case 0, 1:
		args := []string{edgeMillis[r.Intn(len(edgeMillis))], str(edgeDatePicture(r))}
		if r.Intn(3) == 0 {
			z := c05Zones[r.Intn(len(c05Zones))]
			if zs, ok := z.(string); ok {
				args = append(args, str(zs))
			}
		}
		return "$fromMillis(" + strings.Join(args, ", ") + ")", doc, "edge:fromMillis-picture"
	case 2:
		text := r.Pick("2018-02-03", "1", "12/31/1999", "99999999999999999999", "MMXVIII", "first", "one thousand", "2018-02-03T10:20:30.456+01:00", strings.Repeat("9", 70), "")
		return "$toMillis(" + str(text) + ", " + str(edgeDatePicture(r)) + ")", doc, "edge:toMillis-picture"
	case 3, 4:
		if r.Intn(5) == 0 {
			// grouping with a digit family that straddles a UTF-8 width boundary
			return "$formatNumber(" + r.Pick("1116", "1234567.891", "-98765432", "1e15", "1000", "99999.5") + ", " + str(r.Pick("#,###", "#,##.##", "##,#", "#,#", "#,####", "#,###.#,#")) +
				`, {"zero-digit":` + str(r.Pick("z", "y", "{", "w", "߸", "ߺ", "￺", "٠", "𝟎", "x")) + `})`, doc, "edge:formatNumber-digit-family"
		}
		args := []string{edgeNums[r.Intn(len(edgeNums))], str(edgeNumPicture(r))}
		if r.Intn(4) == 0 {
			// digit families that straddle a UTF-8 width boundary
			args = append(args, `{"zero-digit":`+str(r.Pick("z", "y", "{", "w", "߸", "ߺ", "￺", "٠", "𝟎", "a", "9", "~"))+`}`)
		} else if r.Intn(4) == 0 {
			if o, ok := c05NumOpts[r.Intn(len(c05NumOpts))].(O); ok {
				var kv []string
				for k, v := range o {
					kv = append(kv, str(k)+":"+str(fmt.Sprint(v)))
				}
				args = append(args, "{"+strings.Join(kv, ",")+"}")
			}
		}
		return "$formatNumber(" + strings.Join(args, ", ") + ")", doc, "edge:formatNumber-picture"
	case 5:
		return "$formatBase(" + edgeNums[r.Intn(len(edgeNums))] + ", " + r.Pick("2", "36", "37", "1", "0", "-2", "2.5", "1e21", "16", "1.5", "35.5") + ")", doc, "edge:formatBase"
	case 6:
		text := r.Pick("1e400", "-1e400", "1e-400", "0x", "0x1G", "0b102", "0o8", "1e", "e1", ".5", "5.", "+1", "--1", " 1 ", "1_000", "Infinity", "NaN", "0x"+strings.Repeat("F", 40), strings.Repeat("9", 400), "1"+strings.Repeat("0", 308), "0."+strings.Repeat("0", 330)+"1", "١٢٣", "1e+05", "0e0", "-0")
		return "$number(" + str(text) + ")", doc, "edge:number-text"
	case 7:
		return "$round(" + edgeNums[r.Intn(len(edgeNums))] + ", " + r.Pick("0", "1", "-1", "15", "17", "20", "308", "323", "324", "400", "-308", "-400", "1.5", "1e10", "-1e10") + ")", doc, "edge:round-precision"
	}
	if r.Intn(6) == 0 {
		// a matcher whose chain of match objects never ends (next is the matcher
		// itself: nothing recurses, the library does the walking): every use that
		// needs a bounded number of matches must still return
		f := `$f := function($s){{"match":"a","start":0,"end":1,"groups":[],"next":$f}}; `
		use := r.Pick(`$contains("a", $f)`, `$match("a", $f, 1)`, `$match("aaa", $f, 3)`, `$split("a", $f, 1)`, `$split("a", $f, 0)`, `$replace("a", $f, "b", 1)`, `$replace("a", $f, "b", 0)`, `$match("a", $f, 0)`)
		return "(" + f + use + ")", doc, "edge:matcher-protocol:endless-chain-with-limit"
	}
	m := edgeMatcher(r, 0)
	subj := r.Pick("s", "t", `""`, `"a"`, `"abcabcabc"`)
	switch r.Intn(5) {
	case 0:
		return "$split(" + subj + ", " + m + r.Pick("", ", 1", ", 0", ", 5") + ")", doc, "edge:matcher-protocol:split"
	case 1:
		return "$replace(" + subj + ", " + m + ", " + r.Pick(`"x"`, `"[$1$0$2]"`, `"$"`, `"$$"`, `"$9"`, `"$10"`, "function($m){$m.match}", "function($m){$m.groups[5]}", "function($m){$m}", "function($m){1}") + r.Pick("", ", 1", ", 0", ", 3") + ")", doc, "edge:matcher-protocol:replace"
	case 2:
		return "$match(" + subj + ", " + m + r.Pick("", ", 1", ", 0") + ")", doc, "edge:matcher-protocol:match"
	case 3:
		return "$contains(" + subj + ", " + m + ")", doc, "edge:matcher-protocol:contains"
	}
	return subj + " ~> " + m, doc, "edge:matcher-protocol:direct-call"
}
