package props

import (
	"fmt"

	"verif/harness/fw"
	"verif/harness/gen"
	"verif/harness/jast"
	"verif/harness/judge"
	"verif/harness/prng"
)

// C01: paths. C02: predicates. Oracle = reference model.

// catalogue of documents for the exhaustive part: one member per object (so *
// and ** are deterministic), arrays nested in arrays at every position,
// members missing in some elements.
func c01Catalogue() []interface{} {
	var docs []interface{}
	leaves := []interface{}{
		1.0, "s", true,
		O{"b": 2.0}, O{"a": 3.0}, O{"b": A{4.0, 5.0}}, O{"b": O{"a": 6.0}},
		A{}, A{7.0}, A{8.0, 9.0},
		A{O{"b": 1.0}}, A{O{"b": 1.0}, O{"b": 2.0}}, A{O{"b": 1.0}, O{"a": 2.0}, O{"b": 3.0}},
		A{O{"b": A{1.0, 2.0}}, O{"b": A{3.0}}}, A{O{"b": A{}}, O{"b": 4.0}},
		A{A{1.0, 2.0}, A{3.0}}, A{A{O{"b": 1.0}}}, A{A{O{"b": 1.0}, O{"b": 2.0}}, A{O{"b": 3.0}}},
		A{A{A{O{"b": 1.0}}}}, A{A{A{1.0}}, 2.0}, A{A{}}, A{A{O{"b": A{1.0, 2.0}}, O{"b": A{3.0}}}},
		A{O{"a": O{"b": 1.0}}, O{"a": A{O{"b": 2.0}, O{"b": 3.0}}}},
		A{1.0, O{"b": 2.0}, A{O{"b": 3.0}}, "x"},
	}
	for _, l := range leaves {
		docs = append(docs, O{"a": l})
		docs = append(docs, O{"a": O{"a": l}})
		docs = append(docs, O{"a": A{O{"a": l}, O{"b": l}}})
		docs = append(docs, A{O{"a": l}, O{"a": 1.0}})
		docs = append(docs, A{A{O{"a": l}}})
	}
	return docs
}

func c01StepAlpha(k int) jast.Node {
	switch k {
	case 0:
		return &jast.Name{V: "a"}
	case 1:
		return &jast.Name{V: "b"}
	case 2:
		return &jast.Wild{}
	case 3:
		return &jast.Desc{}
	case 4:
		return &jast.Var{Name: ""}
	case 5:
		return &jast.Array{Items: []jast.Node{&jast.Name{V: "a"}}}
	}
	return &jast.Block{Exprs: []jast.Node{&jast.Path{Steps: []jast.Node{&jast.Name{V: "a"}, &jast.Name{V: "b"}}}}}
}

// c01Exhaustive decodes index i into (path of <=3 steps over 7 symbols, keep, doc).
func c01Exhaustive(i int64, ndocs int64) (jast.Node, int64) {
	di := i % ndocs
	i /= ndocs
	keep := i%2 == 1
	i /= 2
	// lengths 1..3: 7, 49, 343
	var steps []jast.Node
	switch {
	case i < 7:
		steps = []jast.Node{c01StepAlpha(int(i))}
	case i < 7+49:
		i -= 7
		steps = []jast.Node{c01StepAlpha(int(i / 7)), c01StepAlpha(int(i % 7))}
	default:
		i -= 56
		steps = []jast.Node{c01StepAlpha(int(i / 49)), c01StepAlpha(int(i / 7 % 7)), c01StepAlpha(int(i % 7))}
	}
	return &jast.Path{Steps: steps, Keep: keep}, di
}

type pathGen struct {
	r        *prng.R
	preds    bool // C02: attach predicates
	usesWild bool
	hasVar   bool
	tags     map[string]bool
}

var pgNames = []string{"a", "b", "c", "k", "v", "b c", "and", "id", "zz"}

func (g *pathGen) name() jast.Node {
	n := pgNames[g.r.Intn(len(pgNames))]
	return &jast.Name{V: n, Esc: g.r.Intn(8) == 0}
}

func (g *pathGen) subPath(d int) jast.Node {
	n := g.r.Range(1, 2)
	p := &jast.Path{}
	for i := 0; i < n; i++ {
		p.Steps = append(p.Steps, g.step(d+1, i == 0))
	}
	return p
}

func (g *pathGen) step(d int, first bool) jast.Node {
	r := g.r
	k := r.Intn(20)
	if d >= 2 && k >= 10 {
		k = r.Intn(10)
	}
	var s jast.Node
	switch {
	case k < 9:
		s = g.name()
	case k == 9:
		g.usesWild = true
		g.tags["wildcard"] = true
		s = &jast.Wild{}
	case k == 10:
		g.usesWild = true
		g.tags["descendant"] = true
		s = &jast.Desc{}
	case k == 11:
		g.tags["$"] = true
		s = &jast.Var{Name: ""}
	case k == 12:
		g.tags["$$"] = true
		s = &jast.Var{Name: "$"}
	case k == 13:
		g.tags["$v"] = true
		g.hasVar = true
		s = &jast.Var{Name: "v"}
	case k == 14:
		g.tags["paren-step"] = true
		sp := g.subPath(d)
		if r.Bool() {
			// a keep-array marker inside the parentheses belongs to the sub-path only
			g.tags["paren-step:with-marker-inside"] = true
			sp.(*jast.Path).Keep = true
		}
		s = &jast.Block{Exprs: []jast.Node{sp}}
	case k == 15:
		g.tags["array-step"] = true
		a := &jast.Array{Items: []jast.Node{g.subPath(d)}}
		if r.Intn(3) == 0 {
			a.Items = append(a.Items, g.subPath(d))
		}
		s = a
	case k == 16:
		g.tags["object-step"] = true
		s = &jast.Object{Pairs: [][2]jast.Node{{&jast.Str{V: "x"}, g.subPath(d)}}}
	case k == 17 && r.Intn(2) == 0:
		// function-call steps whose result is an array as the library builds it
		// (a Go slice of another type than the JSON decoder's): flattened one
		// level like any other array-valued step result
		switch r.Intn(3) {
		case 0:
			g.tags["fn-step:split"] = true
			s = &jast.Call{Fn: &jast.Var{Name: "split"}, Args: []jast.Node{&jast.Str{V: r.Pick("p,q", "p", "p,q,r")}, &jast.Str{V: ","}}}
		case 1:
			g.tags["fn-step:keys"] = true
			g.usesWild = true
			s = &jast.Call{Fn: &jast.Var{Name: "keys"}, Args: []jast.Node{&jast.Var{Name: ""}}}
		default:
			g.tags["fn-step:spread"] = true
			g.usesWild = true
			s = &jast.Call{Fn: &jast.Var{Name: "spread"}, Args: []jast.Node{&jast.Var{Name: ""}}}
		}
	case k == 17:
		g.tags["fn-step:string"] = true
		s = &jast.Call{Fn: &jast.Var{Name: "string"}}
	case k == 18:
		g.tags["fn-step:count"] = true
		s = &jast.Call{Fn: &jast.Var{Name: "count"}, Args: []jast.Node{&jast.Var{Name: ""}}}
	default:
		g.tags["fn-step:uppercase"] = true
		s = &jast.Call{Fn: &jast.Var{Name: "uppercase"}}
	}
	if g.preds && r.Intn(3) == 0 {
		s = g.withPreds(s, d)
	}
	return s
}

// program returns a whole program: a path, possibly inside a block binding $v.
func (g *pathGen) program() jast.Node {
	r := g.r
	n := r.Range(1, 5)
	p := &jast.Path{Keep: r.Intn(4) == 0}
	for i := 0; i < n; i++ {
		p.Steps = append(p.Steps, g.step(0, i == 0))
	}
	var prog jast.Node = p
	if g.preds && r.Intn(4) == 0 {
		// (path)[p] applies to the whole result
		prog = g.withPreds(&jast.Block{Exprs: []jast.Node{p}}, 0)
	}
	if g.hasVar {
		var val jast.Node
		switch r.Intn(4) {
		case 0:
			val = g.name()
		case 1:
			val = &jast.Path{Steps: []jast.Node{g.name(), g.name()}}
		case 2:
			val = lit(A{O{"b": A{1.0, 2.0}}, O{"a": A{O{"b": 3.0}}}, A{O{"b": 4.0}}}) // one member per object: * and ** stay deterministic
		default:
			val = &jast.Var{Name: ""}
		}
		prog = &jast.Block{Exprs: []jast.Node{&jast.Assign{Name: "v", Val: val}, prog}}
	}
	return prog
}

func runPathCase(r *fw.Rec, tree jast.Node, doc interface{}, tag string, leaky bool, style *jast.Style) {
	op := judge.Opts{EmptyIsUndef: true}
	if leaky {
		op.LooseMultiset = true
	}
	modelCheck(r, tree, doc, tag, op, style)
}

func init() {
	cat := c01Catalogue()
	nd := int64(len(cat))
	nEx := int64(399*2) * nd
	fw.Register(&fw.Prop{
		ID: "C01", Title: "Paths map over sequences, flatten one level, normalise empty/singleton results",
		Rule: fmt.Sprintf("cases: (a) exhaustive: all 399 paths of <=3 steps over {a, b, *, **, $, [a], (a.b)} x keep-marker on/off x a catalogue of %d documents that nest scalars, objects, arrays, arrays of arrays (up to 3 deep), empty arrays and elements with missing members under a / a.a / arrays of objects / arrays of arrays; ", nd) +
			"(b) PRNG-generated paths of 1..5 steps over names, back-quoted names, $, $$, $v (bound by an enclosing block), *, **, parenthesised sub-paths, array/object-constructor steps, function-call steps, with/without [], on generated null-free documents (objects limited to one member when * or ** occur, otherwise results compared as multisets). " +
			"Oracle: reference model, exact; empty array identified with 'no value' at whole-result level. non-trivial = >=2 steps, or a document with an array directly inside an array, or the keep marker; distinct by (program, input)",
		Assumptions: []string{"JSON null inside documents is excluded (property quantifier)", "Go map order: objects seen by * and ** have at most one member, otherwise arrays are compared as multisets at every level"},
		Plan: func(tier string, seed uint64) *fw.Plan {
			nRand := int64(30000)
			if tier == "thorough" {
				nRand = 2000000
			}
			return &fw.Plan{N: nEx + nRand,
				Subspaces: []string{fmt.Sprintf("all %d (path of <=3 steps over 7 step symbols, keep on/off, catalogue document) combinations", nEx)},
				Run: func(i int64, r *fw.Rec) {
					if i < nEx {
						tree, di := c01Exhaustive(i, nd)
						runPathCase(r, tree, cat[di], "exhaustive", false, &jast.Style{})
						return
					}
					rr := prng.New(seed, 0xC01, uint64(i))
					g := &pathGen{r: rr, tags: map[string]bool{}}
					tree := g.program()
					// a consumer that bakes the member order into a string ($string
					// of an array built from * or **) needs deterministic objects
					one := g.usesWild && (rr.Intn(2) == 0 || g.tags["fn-step:string"] || g.tags["fn-step:uppercase"])
					doc := gen.Doc(rr, gen.DocOpts{OneMember: one, MaxDepth: 4})
					for t := range g.tags {
						r.Tag(t)
					}
					st := jast.Style{Space: rr.Intn(3), Rnd: rr.Intn}
					runPathCase(r, tree, doc, "random", g.usesWild && !one, &st)
				}}
		},
	})
}
