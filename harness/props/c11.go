package props

import (
	"strconv"
	"encoding/json"
	"fmt"
	"math"
	"strings"

	"verif/harness/fw"
	"verif/harness/obs"
	"verif/harness/prng"
)

// C11: JSON texts are expressions that denote themselves.

type strUnit struct {
	JSON string // how the unit is written inside a JSON string literal
	Raw  bool   // written raw (not an escape)
}

var c11Units = []string{`a`, `\"`, `\\`, `\/`, `\b`, `\f`, `\n`, `\r`, `\t`, "\\u0041", "\\u00e9", "\\ud83d\\ude00", `é`, `😀`, `'`, `$`, `/`, ` `, `\u0000`, `{`, `/*`, `*/`, `//`}

func c11StringLit(i int64) string {
	k := int64(len(c11Units))
	l := 1
	p := k
	for i >= p {
		i -= p
		p *= k
		l++
	}
	parts := make([]string, l)
	for j := l - 1; j >= 0; j-- {
		parts[j] = c11Units[i%k]
		i /= k
	}
	return `"` + strings.Join(parts, "") + `"`
}

func c11NStrings() int64 { k := int64(len(c11Units)); return k + k*k + k*k*k }

// singleQuoted rewrites a JSON string literal with single quotes.
func singleQuoted(lit string) string {
	inner := lit[1 : len(lit)-1]
	// neither the port nor jsonata-js has a \' escape: a raw ' inside a
	// single-quoted literal is written as its unicode escape
	inner = strings.ReplaceAll(inner, `'`, "\\u0027")
	return "'" + inner + "'"
}

var c11Numbers = []string{"0", "-0", "1", "-1", "10", "1.5", "-2.25", "0.1", "1E+2", "1e-2", "1E2", "1e0", "12345678901234567", "9007199254740993", "123456789012345678901234567890",
	"5e-324", "2.2250738585072014e-308", "1.7976931348623157e308", "1e308", "0.30000000000000004", "4.35", "1e21", "1e-7", "100", "0.000001", "-1.5e-10", "3.141592653589793", "1e-400", "0e0", "-0.0", "1e05", "1.5E+07", "-2e-03", "0e00", "6.02e023", "1E+00",
	"18446744073709551615", "18446744073709551616", "20000000000000000000", "99999999999999999999", "-18446744073709551616", "9223372036854775807", "9223372036854775808", "4294967296", "340282366920938463463374607431768211456"}

var c11Escapes = []string{`\"`, `\\`, `\/`, `\b`, `\f`, `\n`, `\r`, `\t`, "\\u0041", "\\u00e9", "\\u20ac", "\\ud83d\\ude00", "\\uD83D\\uDE00", `\u0000`, `\u001f`, "\\uffff", `\u007f`, "\\u00E9"}
var c11Raw = []string{"/*", "*/", "//", "#", "<!--", "a", "Z", " ", "é", "€", "😀", "'", "$", "/", "{", "}", "[", "]", "(", ")", ":", ",", ".", "*", "?", "&", "|", "~", "`", "%", "^", ";", "=", "<", ">", "!", "+", "-", "0"}
var c11WS = []string{"", " ", "\t", "\n", "\r", "  ", " \n\t "}

type c11Gen struct {
	r    *prng.R
	tags map[string]bool
}

func (g *c11Gen) ws() string { return c11WS[g.r.Intn(len(c11WS))] }

func (g *c11Gen) str() string {
	r := g.r
	n := r.Intn(7)
	var sb strings.Builder
	sb.WriteByte('"')
	for i := 0; i < n; i++ {
		if r.Intn(3) == 0 {
			sb.WriteString(c11Escapes[r.Intn(len(c11Escapes))])
			g.tags["escape"] = true
		} else {
			sb.WriteString(c11Raw[r.Intn(len(c11Raw))])
		}
	}
	sb.WriteByte('"')
	return sb.String()
}

func (g *c11Gen) num() string {
	r := g.r
	if r.Intn(2) == 0 {
		return c11Numbers[r.Intn(len(c11Numbers))]
	}
	// random syntax
	var sb strings.Builder
	if r.Intn(3) == 0 {
		sb.WriteByte('-')
	}
	if r.Intn(4) == 0 {
		sb.WriteByte('0')
	} else {
		sb.WriteByte(byte('1' + r.Intn(9)))
		for k := r.Intn(26); k > 0; k-- {
			sb.WriteByte(byte('0' + r.Intn(10)))
		}
	}
	if r.Intn(2) == 0 {
		sb.WriteByte('.')
		for k := r.Range(1, 18); k > 0; k-- {
			sb.WriteByte(byte('0' + r.Intn(10)))
		}
	}
	if r.Intn(3) == 0 {
		sb.WriteString(r.Pick("e", "E"))
		sb.WriteString(r.Pick("", "+", "-"))
		// (exponent digits may have leading zeros: 1e05, 2E-003)
		sb.WriteString(strings.Repeat("0", []int{0, 0, 0, 1, 2, 5}[r.Intn(6)]))
		sb.WriteString(fmt.Sprint(r.Intn(300)))
	}
	g.tags["number-syntax"] = true
	return sb.String()
}

func (g *c11Gen) value(d int) string {
	r := g.r
	k := r.Intn(10)
	if d >= 5 && k >= 6 {
		k = r.Intn(6)
	}
	switch {
	case k < 2:
		return g.num()
	case k < 4:
		return g.str()
	case k == 4:
		return r.Pick("true", "false")
	case k == 5:
		return "null"
	case k < 8:
		n := r.Intn(5)
		if r.Intn(5) == 0 {
			n = 0
		}
		parts := make([]string, n)
		for i := range parts {
			parts[i] = g.ws() + g.value(d+1) + g.ws()
		}
		g.tags["array"] = true
		if n == 0 {
			return "[" + g.ws() + "]"
		}
		return "[" + strings.Join(parts, ",") + "]"
	}
	n := r.Intn(5)
	if r.Intn(5) == 0 {
		n = 0
	}
	parts := make([]string, 0, n)
	used := map[string]bool{}
	for i := 0; i < n; i++ {
		key := g.str()
		var dec string
		if json.Unmarshal([]byte(key), &dec) != nil || used[dec] {
			continue
		}
		used[dec] = true
		parts = append(parts, g.ws()+key+g.ws()+":"+g.ws()+g.value(d+1)+g.ws())
	}
	g.tags["object"] = true
	if len(parts) == 0 {
		return "{" + g.ws() + "}"
	}
	return "{" + strings.Join(parts, ",") + "}"
}

// sameJSON compares decoded JSON values; numbers bit-for-bit except the sign of zero.
func sameJSON(a, b interface{}) bool {
	switch x := a.(type) {
	case float64:
		y, ok := b.(float64)
		if !ok {
			return false
		}
		return math.Float64bits(x) == math.Float64bits(y) // -0 and 0 are different JSON numbers
	case []interface{}:
		y, ok := b.([]interface{})
		if !ok || len(x) != len(y) {
			return false
		}
		for i := range x {
			if !sameJSON(x[i], y[i]) {
				return false
			}
		}
		return true
	case map[string]interface{}:
		y, ok := b.(map[string]interface{})
		if !ok || len(x) != len(y) {
			return false
		}
		for k, v := range x {
			w, ok := y[k]
			if !ok || !sameJSON(v, w) {
				return false
			}
		}
		return true
	}
	return a == b
}

var c11Inputs = []string{`null`, `{"a":1,"b":[1,2],"true":false,"x":{"y":"z"}}`, `[]`, `[[],{}]`, `"s"`}

var c11Malformed = []string{`"\x"`, `"\u12"`, `"\u12g4"`, `"\ud83d"`, `"\ude00"`, `"\ud83dA"`, "\"\\ud83d\\u0041\"", `"\ud83d\ud83d"`, `"\a"`, `"\'"`, `"\0"`, `"\u"`, `"\U0041"`,
	`1e309`, `-1e309`, `1e400`, `01`, `1.`, `.5`, `+1`, `1e`, `1e+`, `0x10`, `[1,]`, `[,1]`, `{"a":1,}`, `{"a"}`, `{"a":}`, `"abc`, `'abc`,
	`["\ud83d"]`, `{"k":"\ude00"}`, `[1e999]`, `{"a":1e309}`}

func c11Check(r *fw.Rec, text string, tag string) {
	r.Begin(text, c11Inputs[0])
	r.Tag(tag)
	r.Nontrivial(text)
	var want interface{}
	dec := json.NewDecoder(strings.NewReader(text))
	if err := dec.Decode(&want); err != nil {
		// the generator only produces syntactically valid texts; the JSON parser
		// rejects them only for numbers outside the double range, which must be
		// compile errors
		if strings.Contains(err.Error(), "cannot unmarshal number") {
			c11CheckMalformed(r, text)
			return
		}
		r.Inconclusive("harness generated an invalid JSON text: " + err.Error())
		return
	}
	e, co := obs.Compile(text)
	if e == nil {
		r.Outcome(co.Class())
		r.Violation("json-text-rejected", "a JSON text is not accepted as an expression: "+co.String(), nil)
		return
	}
	for _, in := range c11Inputs {
		r.Evals(1)
		var out []byte
		var err error
		if pi := fw.Guard(func() { out, err = e.EvalBytes([]byte(in)) }); pi != nil {
			r.Violation("panic:"+pi.Site, "EvalBytes panicked: "+pi.Value, nil)
			return
		}
		if err != nil {
			// an empty array/object at the top level is a value, not 'no value'
			r.Outcome("error")
			r.Violation("json-text-not-a-value", fmt.Sprintf("evaluating the JSON text on input %s failed: %v", in, err), nil)
			return
		}
		var got interface{}
		if err := json.Unmarshal(out, &got); err != nil {
			r.Violation("output-not-json", "EvalBytes output is not JSON: "+string(out), nil)
			return
		}
		if !sameJSON(got, want) {
			r.Outcome("value")
			r.Violation("denotes-other-value", fmt.Sprintf("the text denotes %s but evaluates (input %s) to %s", obs.Show(want), in, clipb(out)), nil)
			return
		}
	}
	r.Outcome("value")
	r.Held()
	r.Sample(tag, map[string]any{"json_text": text, "denotes": obs.Show(want)})
}

func c11CheckMalformed(r *fw.Rec, text string) {
	r.Begin(text, "")
	r.Tag("malformed")
	r.Nontrivial(text)
	e, co := obs.Compile(text)
	if e != nil {
		o := obs.Eval(e, nil)
		r.Outcome("compiled")
		r.Violation("malformed-accepted", "a malformed JSON text compiled (it must be a compile error, not a silently altered value); it evaluates to "+o.String(), nil)
		return
	}
	r.Outcome(co.Class())
	if co.Kind == "panic" {
		r.Violation("panic:Compile", co.String(), nil)
		return
	}
	r.Held()
	r.Sample("malformed", map[string]any{"text": text, "compile_error": co.Err.Error()})
}

// escape grid: \u followed by every 4-character string over an alphabet of hex
// digits and near-misses, and a backslash followed by every printable ASCII
// character. What encoding/json accepts must denote the same value; everything
// else (and lone surrogates) must be a compile error.
const c11UAlpha = "04aFd8g+- _x"

// c11EscapeOther: the characters after a backslash that are not printable
// ASCII: controls, U+0080..U+024F, and for each of the eight escape letters the
// characters that share its low bits (c + 256k, c + 65536k).
var c11EscapeOther = func() []rune {
	var rs []rune
	for c := rune(0); c < 0x20; c++ {
		rs = append(rs, c)
	}
	for c := rune(0x7f); c <= 0x24f; c++ {
		rs = append(rs, c)
	}
	for _, c := range `"\/bfnrtu` {
		for k := rune(3); k <= 64; k++ {
			rs = append(rs, c+256*k)
		}
		for k := rune(1); k <= 16; k++ {
			rs = append(rs, c+65536*k)
		}
	}
	return rs
}()

// c11SurrogateUnits: \u escapes at the edges of the surrogate ranges; every
// sequence of two and of three of them is a case (a text is well formed iff
// every high surrogate is directly followed by a low one and every low one
// directly preceded by a high one)
var c11SurrogateUnits = []string{"D7FF", "d800", "DBFF", "dc00", "DFFF", "E000", "0041"}

func c11SurrogateSeqN() int64 { return 7*7 + 7*7*7 }

func c11SurrogateSeq(r *fw.Rec, i int64) {
	var idx []int
	if i < 49 {
		idx = []int{int(i / 7), int(i % 7)}
	} else {
		i -= 49
		idx = []int{int(i / 49), int(i / 7 % 7), int(i % 7)}
	}
	var esc strings.Builder
	units := make([]uint16, len(idx))
	for k, j := range idx {
		esc.WriteString("\\u" + c11SurrogateUnits[j])
		n, _ := strconv.ParseUint(c11SurrogateUnits[j], 16, 16)
		units[k] = uint16(n)
	}
	ok := true
	for k := 0; k < len(units); k++ {
		hi := units[k] >= 0xD800 && units[k] <= 0xDBFF
		lo := units[k] >= 0xDC00 && units[k] <= 0xDFFF
		switch {
		case hi:
			if k+1 >= len(units) || units[k+1] < 0xDC00 || units[k+1] > 0xDFFF {
				ok = false
			}
			k++ // the low half of the pair
		case lo:
			ok = false
		}
	}
	text := `"x` + esc.String() + `y"`
	if r.Case()%2 == 1 {
		text = `{'k` + esc.String() + `': ['` + esc.String() + `']}`
	}
	if !ok {
		c11CheckMalformed(r, text)
		r.Tag("surrogate-sequences:malformed")
		return
	}
	if text[0] == '{' {
		text = `{"k` + esc.String() + `": ["` + esc.String() + `"]}`
	}
	c11Check(r, text, "surrogate-sequences:valid")
}

func c11EscapeGridN() int64 { return 12*12*12*12 + 95 + int64(len(c11EscapeOther)) + c11SurrogateSeqN() }

func c11EscapeGrid(r *fw.Rec, i int64) {
	if g := int64(12*12*12*12 + 95 + len(c11EscapeOther)); i >= g {
		c11SurrogateSeq(r, i-g)
		return
	}
	var esc string
	if i < 12*12*12*12 {
		b := []byte{'\\', 'u', 0, 0, 0, 0}
		for k := 5; k >= 2; k-- {
			b[k] = c11UAlpha[i%12]
			i /= 12
		}
		esc = string(b)
	} else if i < 12*12*12*12+95 {
		esc = "\\" + string(rune(0x20+i-12*12*12*12))
	} else {
		esc = "\\" + string(c11EscapeOther[i-12*12*12*12-95])
	}
	text := `"x` + esc + `y"`
	var want string
	err := json.Unmarshal([]byte(text), &want)
	if err == nil && len(esc) == 6 {
		if n, perr := strconv.ParseUint(esc[2:], 16, 16); perr == nil && n >= 0xD800 && n <= 0xDFFF {
			err = fmt.Errorf("lone surrogate")
		}
	}
	if err != nil {
		c11CheckMalformed(r, text)
		r.Tag("escape-grid:malformed")
		return
	}
	c11Check(r, text, "escape-grid:valid")
}

func init() {
	nStr := c11NStrings()
	fw.Register(&fw.Prop{
		ID: "C11", Title: "JSON texts are expressions that denote themselves",
		Rule: fmt.Sprintf("cases: (a) exhaustive: all %d string literals of <=3 units over a 23-unit alphabet of JSON escapes (incl. the comment delimiters of other languages) (incl. \\uXXXX and a surrogate pair), raw BMP/astral characters and JSONata metacharacters, each double-quoted and rewritten single-quoted; ", nStr) +
			"(b) a fixed list of malformed texts (bad escapes, unpaired surrogates, out-of-range and non-JSON numbers, trailing commas, unterminated strings) that must be compile errors; (b2) the escape grid: \\u followed by each of the 20736 four-character strings over the alphabet 0 4 a F d 8 g + - space _ x, and a backslash followed by each printable ASCII character, each control character, each character of U+0080..U+024F and the characters that share the low bits of an escape letter, and every sequence of two and three \\u escapes at the edges of the surrogate ranges: what encoding/json accepts must denote the same value, everything else and lone surrogates must be compile errors; (c) PRNG-generated RFC 8259 texts of depth<=5, width<=4 with unique keys: every escape form, all number syntaxes (-0, exponent forms, 17+ digits, subnormals, 1e308), empty and nested containers, arbitrary inter-token whitespace. " +
			"Oracle: encoding/json's decoding of the same text; EvalBytes(text-as-expression) on five different inputs (null, an object, an empty array, an array of empty containers, a string) must decode to exactly that value (numbers bit-for-bit, the sign of zero included). non-trivial = every case; distinct by text",
		Assumptions: []string{"encoding/json is the JSON parser of reference, except for unpaired surrogates, where the statement (compile error) is the oracle", "object keys are unique"},
		Plan: func(tier string, seed uint64) *fw.Plan {
			nRand := int64(20000)
			if tier == "thorough" {
				nRand = 1000000
			}
			nm := int64(len(c11Malformed))
			ng := c11EscapeGridN()
			nRand += ng
			return &fw.Plan{N: 2*nStr + nm + nRand,
				Subspaces: []string{fmt.Sprintf("%d string literals x 2 quote styles", nStr), fmt.Sprintf("%d malformed texts", nm)},
				Run: func(i int64, r *fw.Rec) {
					switch {
					case i < nStr:
						c11Check(r, c11StringLit(i), "string-literal")
					case i < 2*nStr:
						c11CheckSingle(r, c11StringLit(i-nStr))
					case i < 2*nStr+nm:
						c11CheckMalformed(r, c11Malformed[i-2*nStr])
					case i < 2*nStr+nm+ng:
						c11EscapeGrid(r, i-2*nStr-nm)
					default:
						rr := prng.New(seed, 0xC11, uint64(i))
						if i%16 == 5 {
							c11Related(r, rr)
							return
						}
						g := &c11Gen{r: rr, tags: map[string]bool{}}
						text := g.ws() + g.value(0) + g.ws()
						for t := range g.tags {
							r.Tag(t)
						}
						c11Check(r, text, "generated-text")
					}
				}}
		},
	})
}

// Texts that differ only in which space-like character stands raw inside their
// strings and keys (all of them legal there) are compiled and evaluated one
// after the other in one process: each denotes itself, whatever was compiled
// before it.
var c11Spaces = []string{" ", "\u00a0", "\u2028", "\u2029", "\u3000", "\u1680", "\u2003", "\ufeff", "\u0085", "\u200b"}

func c11Related(r *fw.Rec, rr *prng.R) {
	str := func() string {
		// like g.str(), with the place holder between two units (never inside an
		// escape, never between the halves of a surrogate pair)
		n := rr.Intn(7)
		at := rr.Intn(n + 1)
		var sb strings.Builder
		sb.WriteByte('"')
		for k := 0; k <= n; k++ {
			if k == at {
				sb.WriteString("\x00")
			}
			if k == n {
				break
			}
			if rr.Intn(3) == 0 {
				sb.WriteString(c11Escapes[rr.Intn(len(c11Escapes))])
			} else {
				sb.WriteString(c11Raw[rr.Intn(len(c11Raw))])
			}
		}
		sb.WriteByte('"')
		return sb.String()
	}
	var tmpl string
	switch rr.Intn(4) {
	case 0:
		tmpl = str()
	case 1:
		tmpl = "[" + str() + ", " + str() + "]"
	case 2:
		tmpl = "{" + str() + ": " + str() + "}"
	default:
		tmpl = "{\"k\x00v\": [" + str() + ", {\"a\": " + str() + "}]}"
	}
	first := strings.ReplaceAll(tmpl, "\x00", c11Spaces[0])
	r.Begin(first, "null")
	r.Tag("related-texts-in-one-process")
	r.Nontrivial(first)
	order := make([]int, len(c11Spaces))
	for k := range order {
		order[k] = k
	}
	for k := len(order) - 1; k > 0; k-- {
		j := rr.Intn(k + 1)
		order[k], order[j] = order[j], order[k]
	}
	for _, k := range order {
		text := strings.ReplaceAll(tmpl, "\x00", c11Spaces[k])
		var want interface{}
		if err := json.Unmarshal([]byte(text), &want); err != nil {
			r.Inconclusive("harness generated an invalid JSON text: " + err.Error())
			return
		}
		e, co := obs.Compile(text)
		if e == nil {
			r.Violation("json-text-rejected", fmt.Sprintf("a JSON text (%q) is not accepted as an expression: %s", text, co.String()), nil)
			return
		}
		r.Evals(1)
		var out []byte
		var err error
		if pi := fw.Guard(func() { out, err = e.EvalBytes([]byte("null")) }); pi != nil {
			r.Violation("panic:"+pi.Site, "EvalBytes panicked: "+pi.Value, nil)
			return
		}
		var got interface{}
		if err != nil || json.Unmarshal(out, &got) != nil {
			r.Violation("json-text-not-a-value", fmt.Sprintf("evaluating the JSON text %q gave %s, %v", text, clipb(out), err), nil)
			return
		}
		if !sameJSON(got, want) {
			r.Violation("denotes-other-value", fmt.Sprintf("the text %q denotes %s but evaluates to %s (texts that differ from it only in a space-like character inside the strings were compiled before it in this process)", text, obs.Show(want), clipb(out)), nil)
			return
		}
	}
	r.Outcome("value")
	r.Held()
}

// single-quoted string denotes the same value as the double-quoted one
func c11CheckSingle(r *fw.Rec, lit string) {
	sq := singleQuoted(lit)
	r.Begin(sq, "null")
	r.Tag("single-quoted")
	r.Nontrivial(sq)
	var want string
	if err := json.Unmarshal([]byte(lit), &want); err != nil {
		r.Inconclusive("bad literal")
		return
	}
	o := obs.Run(sq, nil)
	r.Outcome(o.Class())
	if o.Kind != "value" {
		r.Violation("single-quoted-rejected", "single-quoted literal failed: "+o.String(), nil)
		return
	}
	if s, ok := o.Val.(string); !ok || s != want {
		r.Violation("single-quoted-differs", fmt.Sprintf("single-quoted literal denotes %q, the double-quoted one %q", o.Val, want), nil)
		return
	}
	r.Held()
}
