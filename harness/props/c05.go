package props

import (
	"encoding/json"
	"fmt"
	"hash/fnv"
	"reflect"
	"regexp"
	"sort"

	jsonata "github.com/blues/jsonata-go"

	"verif/harness/fw"
	"verif/harness/gen"
	"verif/harness/jast"
	"verif/harness/obs"
	"verif/harness/prng"
)

// C05: evaluation is repeatable and leaves the compiled expression unchanged.
// No model: the property is an equality across evaluations.

var typeRegexp = reflect.TypeOf((*regexp.Regexp)(nil))

// astHash is a structural hash of the syntax tree reachable from a node,
// including unexported fields and slice lengths.
func astHash(n interface{}) uint64 {
	h := fnv.New64a()
	hashValue(h64{h}, reflect.ValueOf(n), 0)
	return h.Sum64()
}

type h64 struct {
	h interface{ Write([]byte) (int, error) }
}

func (h h64) s(s string) { h.h.Write([]byte(s)); h.h.Write([]byte{0}) }

func hashValue(h h64, v reflect.Value, depth int) {
	if depth > 200 {
		h.s("deep")
		return
	}
	if !v.IsValid() {
		h.s("invalid")
		return
	}
	switch v.Kind() {
	case reflect.Ptr:
		if v.IsNil() {
			h.s("nilptr")
			return
		}
		if v.Type() == typeRegexp {
			if v.CanInterface() {
				h.s("re:" + v.Interface().(*regexp.Regexp).String())
			} else {
				h.s("re")
			}
			return
		}
		h.s("ptr:" + v.Type().String())
		hashValue(h, v.Elem(), depth+1)
	case reflect.Interface:
		if v.IsNil() {
			h.s("niliface")
			return
		}
		hashValue(h, v.Elem(), depth+1)
	case reflect.Struct:
		h.s("struct:" + v.Type().String())
		for i := 0; i < v.NumField(); i++ {
			h.s(v.Type().Field(i).Name)
			hashValue(h, v.Field(i), depth+1)
		}
	case reflect.Slice, reflect.Array:
		h.s(fmt.Sprintf("slice:%d", v.Len()))
		for i := 0; i < v.Len(); i++ {
			hashValue(h, v.Index(i), depth+1)
		}
	case reflect.String:
		h.s("s:" + v.String())
	case reflect.Bool:
		h.s(fmt.Sprint("b:", v.Bool()))
	case reflect.Int, reflect.Int8, reflect.Int16, reflect.Int32, reflect.Int64:
		h.s(fmt.Sprint("i:", v.Int()))
	case reflect.Uint, reflect.Uint8, reflect.Uint16, reflect.Uint32, reflect.Uint64:
		h.s(fmt.Sprint("u:", v.Uint()))
	case reflect.Float32, reflect.Float64:
		h.s(fmt.Sprint("f:", v.Float()))
	case reflect.Map:
		h.s(fmt.Sprintf("map:%d", v.Len()))
	default:
		h.s("k:" + v.Kind().String())
	}
}

// digest renders an outcome for equality across evaluations; loose sorts arrays
// at every level (map-order dependent programs); anyErr folds error classes.
func digest(o obs.Outcome, loose, anyErr bool) string {
	if loose && o.Kind != "panic" {
		// the program iterates an object with several members: its outcome may
		// legitimately depend on Go's map iteration order, so outcomes are not
		// compared (the syntax-tree monitors still apply)
		return "order-dependent (not compared)"
	}
	switch o.Kind {
	case "value":
		n := obs.Normalize(o.Val, nil)
		if loose {
			n = sortDeep(n)
		}
		return "value " + obs.ShowNorm(n)
	case "error":
		if anyErr {
			return "error"
		}
		return "error " + o.ErrClass
	case "panic":
		return "panic " + o.Panic.Site + " " + o.Panic.Class
	}
	return o.Kind
}

func sortDeep(v interface{}) interface{} {
	switch x := v.(type) {
	case []interface{}:
		out := make([]interface{}, len(x))
		keys := make([]string, len(x))
		for i, e := range x {
			out[i] = sortDeep(e)
			keys[i] = obs.ShowNorm(out[i])
		}
		idx := make([]int, len(x))
		for i := range idx {
			idx[i] = i
		}
		sort.SliceStable(idx, func(a, b int) bool { return keys[idx[a]] < keys[idx[b]] })
		res := make([]interface{}, len(x))
		for i, j := range idx {
			res[i] = out[j]
		}
		return res
	case map[string]interface{}:
		out := make(map[string]interface{}, len(x))
		for k, e := range x {
			out[k] = sortDeep(e)
		}
		return out
	}
	return v
}

// interfering expressions: other calls of the same built-ins under other
// contexts, partial applications of context-defaulting built-ins, chains.
var c05Interference = []string{
	`zz.$substringBefore("q")`, `zz.$substringAfter("u")`, `zz.$uppercase()`, `zz.$length()`, `zz.$pad(9, "#")`, `zz.$substring(1)`,
	`zz.$contains("q")`, `zz.$split("u")`, `zz.$string()`, `zz.$trim()`, `zz.$lowercase()`, `num.$abs()`, `num.$power(3)`, `num.$sqrt()`,
	`$pad(?, "2")("k")`, `$substringBefore(?, "u")(zz)`, `4 ~> $power(2)`, `zz ~> $uppercase() ~> $length()`, `num ~> $string() ~> $pad(5)`,
	`o.$keys()`, `o.$spread()`, `o.$lookup("a")`, `o.$each(function($v,$k){$k})`, `o.$sift(function($v){$v > 1})`, `o.$type()`, `o.$boolean()`,
	`$map(arr, $string)`, `$filter(arr, $boolean)`, `$reduce(arr, $append)`, `$sort(arr)`, `arr^($)`, `$sum(arr)`, `$distinct(arr)`,
	`($f := function($x){$x ~> $string() ~> $uppercase()}; $f(zz))`, `$ ~> |o|{"n":1}|`, `arr.{"v": $}`, `arr[$ > 1]`, `$formatNumber(num, "#0.0")`,
	`$fromMillis(1500000000000)`, `$toMillis("2017-05-15T15:12:59.152Z")`, `$match(zz, /u/)`, `$replace(zz, /u/, "U")`, `$join(arr.$string(), "-")`, `$zip(arr, arr)`,
}

const c05InterferenceDoc = `{"zz":"quux quay","num":-16.5,"o":{"a":1,"b":2},"arr":[3,1,2]}`

type c05State struct {
	interf []*jsonata.Expr
	idoc   interface{}
	probes []evalCase
	pexprs []*jsonata.Expr
	step   int64
}

var c05 *c05State

func c05Init(seed uint64) *c05State {
	st := &c05State{idoc: decodeDoc(c05InterferenceDoc)}
	for _, p := range c05Interference {
		e, o := obs.Compile(p)
		if e == nil {
			panic("C05 interference program does not compile: " + p + ": " + o.String())
		}
		st.interf = append(st.interf, e)
	}
	// shared probes: the same (program, input) pairs are evaluated by every
	// worker process at different points of its own history
	for j := 0; len(st.probes) < 200; j++ {
		r := prng.New(seed, 0xC05F, uint64(j))
		g := gen.NewChaos(r, 4, true)
		tree, prog := g.Program(jast.Style{Space: 1})
		tr := jast.TraitsOf(tree)
		if tr.Iterates || tr.MultiPair {
			continue
		}
		e, _ := obs.Compile(prog)
		if e == nil {
			continue
		}
		st.probes = append(st.probes, evalCase{prog: prog, doc: gen.JSON(gen.Doc(r, gen.DocOpts{Nulls: true}))})
		st.pexprs = append(st.pexprs, e)
	}
	return st
}

func init() {
	fw.Register(&fw.Prop{
		ID: "C05", Title: "Evaluation is repeatable and leaves the compiled expression unchanged",
		Rule: "cases: PRNG-generated deterministic type-chaotic programs (every node type and built-in) with 3 generated inputs each; per case a history of 2..5 Eval calls on one Expr over those inputs (same input repeated, other inputs in between), with 0..3 interfering evaluations of other expressions between the steps (other calls of the same built-ins under other contexts, partials of context-defaulting built-ins, chains into call nodes), plus the first evaluation of a second, fresh Expr of the same text. " +
			"Monitors: (1) all outcomes observed for one (program, input) - value (exact, or as multisets for map-order dependent programs), 'no value', error kind - must be equal, within the history and against the fresh Expr; (2) a structural hash of the syntax tree (reflection over VerifNode(), unexported fields and slice lengths included) and Expr.String() must be the same after every Eval as before the first; " +
			"(4) library carry-over histories: one built-in with all arguments taken from the input ($fromMillis, $toMillis, $formatNumber, $formatBase with generated pictures/zones/options, and every other deterministic built-in with type-chaotic arguments), evaluated over 3..5 inputs that share one argument (picture, zone, options, radix, pattern) and differ in the others, then by a second Expr of the same text in reverse order, then the first input again: every input must give its first outcome each time; every ninth of these cases is an object constructor (plain, grouping, path step, nested) whose member values bind and read shared variables, evaluated 8 times on one input: all outcomes equal; another ninth checks context carry-over: a context-defaulting built-in reached without a call site of its own (through ~>, a partial application, a higher-order function) must give the same outcome before and after built-ins were called through callees that are not plain variables (a conditional, a parenthesised function, an array member) under varying context items; " +
			"(3) 200 shared probe pairs are evaluated by all worker processes at different points of their histories and their outcomes compared across processes offline. non-trivial = program that compiled and produced a value or error on at least one input; distinct by (program, inputs, history)",
		Assumptions: []string{"programs using $random/$shuffle/$now/$millis are not generated here ($now/$millis constancy is checked in C19)", "map-order dependent programs are compared as multisets, error kind is not compared when several members of a constructor can fail"},
		Plan: func(tier string, seed uint64) *fw.Plan {
			n, nLib := int64(24000), int64(16000)
			if tier == "thorough" {
				n, nLib = 800000, 600000
			}
			return &fw.Plan{N: n + nLib,
				Init: func(r *fw.Rec) { c05 = c05Init(seed) },
				Run: func(i int64, r *fw.Rec) {
					if i >= n {
						c05Lib(i-n, seed, r)
						return
					}
					c05Run(i, seed, r)
				}}
		},
		Post: c05Post,
	})
}

func c05Run(i int64, seed uint64, r *fw.Rec) {
	st := c05
	rr := prng.New(seed, 0xC05, uint64(i))
	g := gen.NewChaos(rr, 3+int(i%4), true)
	tree, prog := g.Program(jast.Style{Space: rr.Intn(2)})
	tr := jast.TraitsOf(tree)
	docs := make([]interface{}, 3)
	docJSON := make([]string, 3)
	multi := false
	oneAll := rr.Intn(4) > 0
	for k := range docs {
		one := oneAll
		d := gen.Doc(rr, gen.DocOpts{Nulls: true, OneMember: one})
		docJSON[k] = gen.JSON(d)
		docs[k] = d
		if !one {
			multi = true
		}
	}
	loose := tr.Iterates && (multi || tr.MultiPair)
	if loose {
		r.Count("order_dependent_programs_(outcomes_not_compared)", 1)
	}
	anyErr := tr.MultiPair || (tr.Iterates && multi)
	r.Begin(prog, docJSON[0])
	for t := range g.Tags {
		r.Tag(t)
	}
	e, co := obs.Compile(prog)
	if e == nil {
		r.Outcome(co.Class())
		r.Held()
		return
	}
	h0 := astHash(e.VerifNode())
	s0 := e.String()
	// history
	hl := rr.Range(2, 5)
	hist := make([]int, hl)
	switch rr.Intn(3) {
	case 0:
		for k := range hist {
			hist[k] = 0
		}
	case 1:
		for k := range hist {
			hist[k] = k % 2
		}
		hist[hl-1] = 0
	default:
		for k := range hist {
			hist[k] = rr.Intn(3)
		}
		hist[hl-1] = hist[0]
	}
	seen := map[int]string{}
	bad := false
	productive := false
	for step, di := range hist {
		// interference
		for k := rr.Intn(4); k > 0; k-- {
			ie := st.interf[rr.Intn(len(st.interf))]
			r.Evals(1)
			fw.Guard(func() { ie.Eval(st.idoc) })
		}
		r.Evals(1)
		o := obs.Eval(e, docs[di])
		r.Outcome(o.Class())
		if o.Kind == "value" || o.Kind == "error" {
			productive = true
		}
		d := digest(o, loose, anyErr)
		if prev, ok := seen[di]; ok {
			if prev != d {
				r.Violation("outcome-changed", fmt.Sprintf("step %d of history %v: input #%d gave %q, earlier %q", step, hist, di, clipS(d), clipS(prev)), map[string]any{"input": docJSON[di], "history": hist})
				bad = true
				break
			}
		} else {
			seen[di] = d
		}
		if h := astHash(e.VerifNode()); h != h0 {
			r.Violation("ast-changed", fmt.Sprintf("the syntax tree changed during Eval #%d (history %v, input #%d)", step, hist, di), map[string]any{"before": s0, "after": e.String()})
			bad = true
			break
		}
		if s := e.String(); s != s0 {
			r.Violation("string-changed", fmt.Sprintf("Expr.String() changed during Eval #%d: %q -> %q", step, clipS(s0), clipS(s)), nil)
			bad = true
			break
		}
	}
	if !bad {
		// a fresh Expr of the same text must agree with the used one
		e2, _ := obs.Compile(prog)
		if e2 != nil {
			r.Evals(1)
			o2 := obs.Eval(e2, docs[hist[0]])
			if d2 := digest(o2, loose, anyErr); d2 != seen[hist[0]] {
				r.Violation("fresh-expr-differs", fmt.Sprintf("a fresh Expr gave %q, the used one %q", clipS(d2), clipS(seen[hist[0]])), map[string]any{"input": docJSON[hist[0]]})
				bad = true
			}
		}
	}
	if productive {
		r.Nontrivial(fmt.Sprintf("%s\x00%s\x00%v", prog, docJSON[0]+docJSON[1]+docJSON[2], hist))
	}
	if !bad {
		r.Held()
		r.Sample(fmt.Sprintf("hist%d", len(hist)), map[string]any{"prog": prog, "inputs": docJSON, "history": hist, "first_outcome": clipS(seen[hist[0]])})
	}
	// shared probe for the cross-process comparison
	st.step++
	j := int((st.step + int64(13*r.Shard())) % int64(len(st.probes)))
	p := st.probes[j]
	r.Evals(1)
	po := obs.Eval(st.pexprs[j], decodeDoc(p.doc))
	r.Side(map[string]any{"probe": j, "digest": digest(po, false, false), "step": st.step})
	r.Count("cross_process_probe_evaluations", 1)
}

func clipS(s string) string {
	if len(s) > 300 {
		return s[:300] + "…"
	}
	return s
}

func c05Post(d *fw.Driver) {
	type rec struct {
		Probe  int    `json:"probe"`
		Digest string `json:"digest"`
		Step   int64  `json:"step"`
	}
	seen := map[int]map[string][]int{}
	n := 0
	d.SideRecords(func(shard int, line []byte) {
		var x rec
		if json.Unmarshal(line, &x) != nil {
			return
		}
		n++
		if seen[x.Probe] == nil {
			seen[x.Probe] = map[string][]int{}
		}
		seen[x.Probe][x.Digest] = append(seen[x.Probe][x.Digest], shard)
	})
	multi := 0
	for p, ds := range seen {
		procs := map[int]bool{}
		for _, shards := range ds {
			for _, s := range shards {
				procs[s] = true
			}
		}
		if len(procs) > 1 {
			multi++
		}
		if len(ds) > 1 {
			det := fmt.Sprintf("shared probe #%d produced %d different outcomes across worker processes/histories:", p, len(ds))
			for dg, shards := range ds {
				det += fmt.Sprintf(" %q in shards %v;", clipS(dg), shards)
			}
			v := &fw.ViolationRec{Case: -1, Sig: "cross-process-outcome", Detail: det}
			if st := c05Init(d.Seed); p < len(st.probes) {
				v.Prog, v.Doc = st.probes[p].prog, st.probes[p].doc
			}
			d.AddViolation(v)
		}
	}
	d.Cover("cross_process_probe_records", n)
	d.Cover("probes_evaluated_by_more_than_one_process", multi)
}
