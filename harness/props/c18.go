package props

import (
	"fmt"
	"math"
	"math/big"
	"regexp"
	"strconv"
	"strings"

	"verif/harness/fw"
	"verif/harness/obs"
	"verif/harness/prng"
)

// C18: number conversion, rounding and formatting. Oracles: strconv / math/big.

var c18NumAlpha = []string{"0", "1", "9", ".", "-", "+", "e", "E", " "}
var reC18Number = regexp.MustCompile(`^-?[0-9]+(\.[0-9]+)?([eE][+-]?[0-9]+)?$`)

func c18Doubles(r *prng.R) float64 {
	switch r.Intn(12) {
	case 0:
		return float64(r.Range(-1000, 1000))
	case 1, 2, 3:
		// decimal fraction with 0..6 digits, including exact ties
		d := r.Intn(7)
		n := r.Range(-999999, 999999)
		if r.Intn(3) == 0 {
			n = n/10*10 + 5 // a tie one digit further left
		}
		f, _ := strconv.ParseFloat(fmt.Sprintf("%de-%d", n, d), 64)
		return f
	case 4:
		return math.Pow(10, float64(r.Range(-12, 21)))
	case 5:
		f, _ := strconv.ParseFloat(fmt.Sprintf("%de-%d", r.Range(-99999, 99999), r.Intn(7)), 64)
		if r.Bool() {
			return math.Nextafter(f, math.Inf(1))
		}
		return math.Nextafter(f, math.Inf(-1))
	case 6:
		return []float64{0, math.Copysign(0, -1), 0.5, 1.5, 2.5, -0.5, -1.5, 0.125, 2.675, 1.005, 9.995, 0.1, 0.2, 0.30000000000000004, 123456.789, 1e15, 9007199254740993, 4.35, 99.95, 0.045}[r.Intn(20)]
	case 7:
		return float64(r.Range(-9, 9)) + 0.5
	case 8:
		return float64(int64(r.U64()>>12)) * []float64{1, -1}[r.Intn(2)]
	case 9:
		return float64(r.Range(1, 9999)) / float64(r.Range(1, 97))
	}
	return float64(r.Range(-100000, 100000)) / 100
}

// shortestRat returns the exact rational value of x's shortest decimal form.
func shortestRat(x float64) *big.Rat {
	r, _ := new(big.Rat).SetString(strconv.FormatFloat(x, 'e', -1, 64))
	return r
}

func exactRat(x float64) *big.Rat { return new(big.Rat).SetFloat64(x) }

func pow10Rat(n int) *big.Rat {
	p := new(big.Int).Exp(big.NewInt(10), big.NewInt(int64(abs(n))), nil)
	if n >= 0 {
		return new(big.Rat).SetInt(p)
	}
	return new(big.Rat).SetFrac(big.NewInt(1), p)
}

func abs(n int) int {
	if n < 0 {
		return -n
	}
	return n
}

// roundHalfEven rounds a rational to an integer, ties to even.
func roundHalfEven(q *big.Rat) *big.Int {
	fl := new(big.Int).Div(q.Num(), q.Denom()) // floor for positive denominators
	if q.Sign() < 0 && new(big.Int).Mod(q.Num(), q.Denom()).Sign() != 0 {
		// big.Int.Div is Euclidean: already floor
	}
	rem := new(big.Rat).Sub(q, new(big.Rat).SetInt(fl))
	half := big.NewRat(1, 2)
	switch rem.Cmp(half) {
	case 1:
		return fl.Add(fl, big.NewInt(1))
	case 0:
		if fl.Bit(0) == 1 {
			return fl.Add(fl, big.NewInt(1))
		}
	}
	return fl
}

func sigDigits(s string) int {
	s = strings.TrimPrefix(s, "-")
	if i := strings.IndexAny(s, "eE"); i >= 0 {
		s = s[:i]
	}
	s = strings.Replace(s, ".", "", 1)
	s = strings.TrimLeft(s, "0")
	s = strings.TrimRight(s, "0")
	return len(s)
}

func c18Eval(r *fw.Rec, prog string, doc O, tag string) (obs.Outcome, string) {
	docJSON := genJSON(doc)
	r.Begin(prog, docJSON)
	r.Tag(tag)
	r.Nontrivial(prog + "\x00" + docJSON)
	o := obs.Run(prog, decodeDoc(docJSON))
	r.Outcome(o.Class())
	return o, docJSON
}

func c18Number(r *fw.Rec, s string) {
	o, _ := c18Eval(r, "$number(s)", O{"s": s}, "number-of-string")
	valid := reC18Number.MatchString(s)
	var want float64
	if valid {
		f, err := strconv.ParseFloat(s, 64)
		if err != nil {
			valid = false // out of range
		}
		want = f
	}
	switch {
	case valid && o.Kind == "value":
		f, ok := o.Val.(float64)
		if !ok || math.Float64bits(f) != math.Float64bits(want) && !(f == 0 && want == 0) {
			r.Violation("number-value", fmt.Sprintf("$number(%q) = %v, want %v", s, o.Val, want), nil)
			return
		}
	case valid:
		r.Violation("number-rejected", fmt.Sprintf("$number(%q) failed (%s) but the string is a number", s, o.String()), nil)
		return
	case o.Kind != "error":
		r.Violation("number-accepted", fmt.Sprintf("$number(%q) = %s but the string is not a (representable) number", s, o.String()), nil)
		return
	}
	r.Held()
	r.Sample("number:"+o.Kind, map[string]any{"s": s, "outcome": o.String()})
}

func c18String(r *fw.Rec, x float64) {
	o, _ := c18Eval(r, "[$string(x), $number($string(x)) = x]", O{"x": x}, "string-of-number")
	if o.Kind != "value" {
		r.Violation("string-failed", "got "+o.String(), nil)
		return
	}
	arr, _ := obs.Normalize(o.Val, nil).([]interface{})
	if len(arr) != 2 {
		r.Violation("string-failed", "got "+o.String(), nil)
		return
	}
	s, _ := arr[0].(string)
	back, err := strconv.ParseFloat(s, 64)
	if err != nil || back != x {
		r.Violation("string-not-roundtrip", fmt.Sprintf("$string(%v) = %q does not read back to the same double", x, s), nil)
		return
	}
	if want := sigDigits(strconv.FormatFloat(x, 'g', -1, 64)); sigDigits(s) != want {
		r.Violation("string-not-shortest", fmt.Sprintf("$string(%v) = %q has %d significant digits, the shortest form has %d", x, s, sigDigits(s), want), nil)
		return
	}
	if b, _ := arr[1].(bool); !b {
		r.Violation("number-string-roundtrip", fmt.Sprintf("$number($string(%v)) != %v", x, x), nil)
		return
	}
	r.Held()
	r.Sample("string", map[string]any{"x": x, "string": s})
}

func c18Round(r *fw.Rec, x float64, p int, hasP bool) {
	prog := "$round(x)"
	if hasP {
		prog = fmt.Sprintf("$round(x, %d)", p)
		if p < 0 {
			prog = fmt.Sprintf("$round(x, (%d))", p)
		}
	} else {
		p = 0
	}
	// precondition of the property: |x|*10^p < 2^53
	scaled := new(big.Rat).Mul(shortestRat(x), pow10Rat(p))
	lim := new(big.Rat).SetInt(new(big.Int).Lsh(big.NewInt(1), 53))
	if new(big.Rat).Abs(scaled).Cmp(lim) >= 0 {
		return
	}
	o, _ := c18Eval(r, prog, O{"x": x}, "round")
	n := roundHalfEven(scaled)
	want, _ := new(big.Rat).Mul(new(big.Rat).SetInt(n), pow10Rat(-p)).Float64()
	if o.Kind != "value" {
		r.Violation("round-failed", fmt.Sprintf("%s with x=%v: %s", prog, x, o.String()), nil)
		return
	}
	got, ok := o.Val.(float64)
	if !ok || got != want {
		sig := "round-value"
		// the port scales the decimal text of x and converts it to float64; when
		// that conversion moves the fraction onto, off or across one half, its
		// tie test works on the wrong side: that is the known finding
		if st, err := strconv.ParseFloat(strconv.FormatFloat(x, 'e', -1, 64)+"", 64); err == nil {
			_ = st
			ds := new(big.Rat).Mul(shortestRat(x), pow10Rat(p)).FloatString(40)
			if fv, err := strconv.ParseFloat(ds, 64); err == nil {
				frac := func(q *big.Rat) int {
					a := new(big.Rat).Abs(q)
					fl := new(big.Rat).SetInt(new(big.Int).Div(a.Num(), a.Denom()))
					return new(big.Rat).Sub(a, fl).Cmp(big.NewRat(1, 2))
				}
				if frac(scaled) != frac(exactRat(fv)) {
					sig = "round-value:scaled-decimal-not-representable"
				}
			}
		}
		r.Violation(sig, fmt.Sprintf("%s with x=%v gave %v, half-even rounding of the decimal value gives %v", prog, x, o.Val, want), nil)
		return
	}
	r.Held()
	r.Sample("round", map[string]any{"x": x, "precision": p, "result": got})
}

func c18Math(r *fw.Rec, rr *prng.R) {
	x := c18Doubles(rr)
	y := []float64{2, 0.5, -1, 3, 0, 1.0 / 3, 10, -0.5, 308, 1e3}[rr.Intn(10)]
	fn := rr.Pick("floor", "ceil", "abs", "sqrt", "power")
	prog := "$" + fn + "(x)"
	var want float64
	switch fn {
	case "floor":
		want = math.Floor(x)
	case "ceil":
		want = math.Ceil(x)
	case "abs":
		want = math.Abs(x)
	case "sqrt":
		want = math.Sqrt(x)
	case "power":
		prog = "$power(x, y)"
		want = math.Pow(x, y)
	}
	o, _ := c18Eval(r, prog, O{"x": x, "y": y}, "math:"+fn)
	if math.IsNaN(want) || math.IsInf(want, 0) {
		if o.Kind != "error" {
			r.Violation("math-nonfinite", fmt.Sprintf("%s with x=%v y=%v must be an error (the mathematical result is %v), got %s", prog, x, y, want, o.String()), nil)
			return
		}
		r.Held()
		return
	}
	got, ok := o.Val.(float64)
	if o.Kind != "value" || !ok || got != want {
		r.Violation("math-value", fmt.Sprintf("%s with x=%v y=%v gave %s, want %v", prog, x, y, o.String(), want), nil)
		return
	}
	r.Held()
}

func c18FormatBase(r *fw.Rec, rr *prng.R) {
	var x float64
	switch rr.Intn(4) {
	case 0:
		x = float64(rr.Range(-300, 300))
	case 1:
		x = float64(rr.Range(-3000, 3000)) / 2
	case 2:
		x = float64(int64(rr.U64() >> uint(1+rr.Intn(62))))
		if rr.Bool() {
			x = -x
		}
	default:
		x = c18Doubles(rr)
	}
	if math.Abs(x) >= 9.2e18 {
		x = math.Mod(x, 1e15)
	}
	b := float64(rr.Range(0, 40))
	if rr.Intn(5) == 0 {
		b += 0.5
	}
	hasB := rr.Intn(6) > 0
	prog := "$formatBase(x)"
	if hasB {
		prog = "$formatBase(x, b)"
	} else {
		b = 10
	}
	o, _ := c18Eval(r, prog, O{"x": x, "b": b}, "formatBase")
	radix := roundHalfEven(exactRat(b)).Int64()
	if radix < 2 || radix > 36 {
		if o.Kind != "error" {
			r.Violation("formatbase-radix", fmt.Sprintf("%s x=%v b=%v must be an error, got %s", prog, x, b, o.String()), nil)
			return
		}
		r.Held()
		return
	}
	want := roundHalfEven(exactRat(x)).Text(int(radix))
	if s, ok := o.Val.(string); o.Kind != "value" || !ok || s != want {
		r.Violation("formatbase-value", fmt.Sprintf("%s x=%v b=%v gave %s, want %q", prog, x, b, o.String(), want), nil)
		return
	}
	r.Held()
	r.Sample("formatBase", map[string]any{"x": x, "base": b, "result": want})
}

// ---------------------------------------------------------------- $formatNumber

type picture struct {
	prefix, suffix   string
	prefix2, suffix2 string // negative sub-picture (two = true)
	two              bool
	intOpt, intMand  int
	intSeps          []int // positions counted in digits from the right
	fracMand, fracOpt int
	fracSeps         []int // positions counted in digits from the left
	hasPoint         bool
	expDigits        int // 0 = no exponent
	scale            int // 0, 2 (percent), 3 (per-mille)
	lastMant         *big.Rat // mantissa read back by the last checkFormatted
	lastD            int
	dec, grp, minus  string
	percent, permille string
	options          O
	zero             rune // the zero-digit option (0 = default)
}

// z returns n copies of the picture's mandatory digit.
func (p *picture) z(n int) string {
	if p.zero == 0 {
		return strings.Repeat("0", n)
	}
	return strings.Repeat(string(p.zero), n)
}

func (p *picture) sub(prefix, suffix string) string {
	var sb strings.Builder
	sb.WriteString(prefix)
	n := p.intOpt + p.intMand
	for i := 0; i < n; i++ {
		posFromRight := n - i
		if i < p.intOpt {
			sb.WriteString("#")
		} else {
			sb.WriteString(p.z(1))
		}
		for _, s := range p.intSeps {
			if s == posFromRight-1 && posFromRight-1 > 0 {
				sb.WriteString(p.grp)
			}
		}
	}
	if p.hasPoint {
		sb.WriteString(p.dec)
		m := p.fracMand + p.fracOpt
		for i := 0; i < m; i++ {
			if i < p.fracMand {
				sb.WriteString(p.z(1))
			} else {
				sb.WriteString("#")
			}
			for _, s := range p.fracSeps {
				if s == i+1 && i+1 < m {
					sb.WriteString(p.grp)
				}
			}
		}
	}
	if p.expDigits > 0 {
		sb.WriteString("e" + p.z(p.expDigits))
	}
	sb.WriteString(suffix)
	return sb.String()
}

func (p *picture) text() string {
	s := p.sub(p.prefix, p.suffix)
	if p.two {
		s += ";" + p.sub(p.prefix2, p.suffix2)
	}
	return s
}

var c18Affix = []string{"", "", "", "$", "(", ")", " x", "€ ", "~", "[", "]", "USD ", " metres", "fee ", " each", "e"}

func genPicture(r *prng.R) *picture {
	p := &picture{dec: ".", grp: ",", minus: "-", percent: "%", permille: "‰"}
	if r.Intn(6) == 0 {
		p.dec, p.grp = ",", "."
		p.options = O{"decimal-separator": ",", "grouping-separator": "."}
		if r.Bool() {
			p.minus = "_"
			p.options["minus-sign"] = "_"
		}
	} else if r.Intn(8) == 0 {
		p.minus = r.Pick("_", "−", "~", "m")
		p.options = O{"minus-sign": p.minus}
	}
	if r.Intn(8) == 0 {
		// digits of another family (of one, three and four bytes in UTF-8)
		p.zero = []rune{0x660, 0x966, 0xFF10, 0x1D7CE}[r.Intn(4)]
		if p.options == nil {
			p.options = O{}
		}
		p.options["zero-digit"] = string(p.zero)
	}
	p.intOpt, p.intMand = r.Intn(4), r.Intn(4)
	p.hasPoint = r.Intn(3) > 0
	if p.hasPoint {
		p.fracMand, p.fracOpt = r.Intn(4), r.Intn(4)
	}
	if p.intOpt+p.intMand+p.fracMand+p.fracOpt == 0 {
		p.intMand = 1
	}
	n := p.intOpt + p.intMand
	if n >= 2 && r.Intn(2) == 0 {
		switch r.Intn(3) {
		case 0: // regular grouping
			g := r.Range(1, 3)
			for k := g; k < n; k += g {
				p.intSeps = append(p.intSeps, k)
			}
		case 1: // a single separator
			p.intSeps = []int{r.Range(1, n-1)}
		default: // irregular
			for k := 1; k < n; k++ {
				if r.Intn(3) == 0 && (len(p.intSeps) == 0 || p.intSeps[len(p.intSeps)-1] != k-1) {
					p.intSeps = append(p.intSeps, k)
				}
			}
		}
	}
	m := p.fracMand + p.fracOpt
	if m >= 3 && r.Intn(5) == 0 {
		p.fracSeps = []int{r.Range(1, m-1)}
	}
	p.prefix, p.suffix = c18Affix[r.Intn(len(c18Affix))], c18Affix[r.Intn(len(c18Affix))]
	signInPrefix := r.Intn(3) == 0 // (the sign may stand on either side of the digits)
	switch r.Intn(6) {
	case 0:
		p.scale = 2
		if signInPrefix {
			p.prefix += p.percent
		} else {
			p.suffix += p.percent
		}
	case 1:
		p.scale = 3
		if signInPrefix {
			p.prefix = p.permille + p.prefix
		} else {
			p.suffix = p.permille + p.suffix
		}
	case 2:
		p.expDigits = r.Range(1, 3)
		p.intSeps, p.fracSeps = nil, nil
	}
	if r.Intn(4) == 0 {
		p.two = true
		p.prefix2, p.suffix2 = "(", ")"
		if r.Bool() {
			p.prefix2, p.suffix2 = "minus ", ""
		}
		if p.scale == 2 {
			if signInPrefix {
				p.prefix2 += p.percent
			} else {
				p.suffix2 += p.percent
			}
		}
		if p.scale == 3 {
			if signInPrefix {
				p.prefix2 = p.permille + p.prefix2
			} else {
				p.suffix2 += p.permille
			}
		}
	}
	return p
}

// regular reports whether the integer grouping is regular and its size.
func (p *picture) regular() (int, bool) {
	// XPath F&O 4.7.4: grouping is regular iff there is a G such that every
	// separator stands at a multiple of G (counted in digits from the right)
	// and every multiple of G inside the integer part of the picture has one
	if len(p.intSeps) == 0 {
		return 0, false
	}
	g := p.intSeps[0]
	has := map[int]bool{}
	for _, s := range p.intSeps {
		if s < g {
			g = s
		}
		has[s] = true
	}
	for _, s := range p.intSeps {
		if s%g != 0 {
			return 0, false
		}
	}
	for m := g; m < p.intOpt+p.intMand; m += g {
		if !has[m] {
			return 0, false
		}
	}
	return g, true
}

func gcd(a, b int) int {
	for b != 0 {
		a, b = b, a%b
	}
	return a
}

// checkFormatted parses the output back and compares it with x.
func (p *picture) checkFormatted(x float64, out string) string {
	if p.zero != 0 {
		// every digit of the output belongs to the family of the zero-digit
		var sb strings.Builder
		for _, c := range out {
			switch {
			case c >= '0' && c <= '9':
				return fmt.Sprintf("ASCII digit %q in the output although the zero-digit is %q", string(c), string(p.zero))
			case c >= p.zero && c <= p.zero+9:
				sb.WriteRune('0' + c - p.zero)
			default:
				sb.WriteRune(c)
			}
		}
		out = sb.String()
	}
	neg := x < 0
	pre, suf := p.prefix, p.suffix
	if neg {
		if p.two {
			pre, suf = p.prefix2, p.suffix2
		} else {
			pre = p.minus + pre
		}
	}
	if !strings.HasPrefix(out, pre) || !strings.HasSuffix(out, suf) || len(out) < len(pre)+len(suf) {
		return fmt.Sprintf("prefix/suffix: want %q...%q", pre, suf)
	}
	body := out[len(pre) : len(out)-len(suf)]
	mant, exps := body, ""
	if p.expDigits > 0 {
		i := strings.Index(body, "e")
		if i < 0 {
			return "no exponent separator in the output"
		}
		mant, exps = body[:i], body[i+1:]
	}
	ip, fp := mant, ""
	if i := strings.Index(mant, p.dec); i >= 0 {
		ip, fp = mant[:i], mant[i+len(p.dec):]
	}
	// grouping separators of the integer part
	var idigits strings.Builder
	var seps []int
	digitsSeen := 0
	runes := []rune(ip)
	for i := len(runes) - 1; i >= 0; i-- {
		c := string(runes[i])
		if c == p.grp {
			seps = append(seps, digitsSeen)
			continue
		}
		if c < "0" || c > "9" {
			return fmt.Sprintf("unexpected character %q in the integer part", c)
		}
		digitsSeen++
	}
	for _, c := range runes {
		if string(c) != p.grp {
			idigits.WriteRune(c)
		}
	}
	nd := digitsSeen
	var wantSeps []int
	if g, ok := p.regular(); ok {
		for k := g; k < nd; k += g {
			wantSeps = append(wantSeps, k)
		}
	} else {
		for _, s := range p.intSeps {
			if s < nd {
				wantSeps = append(wantSeps, s)
			}
		}
	}
	if fmt.Sprint(seps) != fmt.Sprint(wantSeps) && !(len(seps) == 0 && len(wantSeps) == 0) {
		return fmt.Sprintf("integer grouping separators at digit positions %v (from the right), the picture puts them at %v", seps, wantSeps)
	}
	var fdigits strings.Builder
	var fseps []int
	fseen := 0
	for _, c := range []rune(fp) {
		if string(c) == p.grp {
			fseps = append(fseps, fseen)
			continue
		}
		if c < '0' || c > '9' {
			return fmt.Sprintf("unexpected character %q in the fractional part", string(c))
		}
		fseen++
		fdigits.WriteRune(c)
	}
	var wantF []int
	for _, s := range p.fracSeps {
		if s < fseen {
			wantF = append(wantF, s)
		}
	}
	if fmt.Sprint(fseps) != fmt.Sprint(wantF) && !(len(fseps) == 0 && len(wantF) == 0) {
		return fmt.Sprintf("fraction grouping separators at %v, the picture puts them at %v", fseps, wantF)
	}
	if nd < p.intMand {
		return fmt.Sprintf("%d integer digits, the picture demands at least %d", nd, p.intMand)
	}
	if fseen < p.fracMand {
		return fmt.Sprintf("%d fraction digits, the picture demands at least %d", fseen, p.fracMand)
	}
	maxFrac := p.fracMand + p.fracOpt
	d := maxFrac
	if p.expDigits > 0 && p.intMand == 0 && maxFrac == 0 {
		d = 1
	}
	if fseen > d && !(fseen == 1 && p.intMand == 0 && p.fracMand == 0) {
		return fmt.Sprintf("%d fraction digits, the picture allows at most %d", fseen, d)
	}
	// read the numeral back
	num := idigits.String()
	if num == "" {
		num = "0"
	}
	if fdigits.Len() > 0 {
		num += "." + fdigits.String()
	}
	rv, ok := new(big.Rat).SetString(num)
	if !ok {
		return "cannot read the numeral " + num
	}
	e := 0
	if p.expDigits > 0 {
		es := exps
		sign := 1
		if strings.HasPrefix(es, p.minus) {
			sign = -1
			es = es[len(p.minus):]
		}
		if len(es) < p.expDigits {
			return fmt.Sprintf("%d exponent digits, the picture demands %d", len(es), p.expDigits)
		}
		for _, c := range es {
			if c < '0' || c > '9' {
				// in particular an ASCII '-' when the format's minus sign is another character
				return fmt.Sprintf("the exponent %q is not the format's minus sign (%q) followed by digits", exps, p.minus)
			}
		}
		n, err := strconv.Atoi(es)
		if err != nil {
			return "cannot read the exponent " + exps
		}
		e = sign * n
		p.lastMant = new(big.Rat).Set(rv)
		if p.intOpt == 0 && p.intMand >= 1 && x != 0 {
			// XPath F&O 4.7.5: the mantissa is scaled into [10^(N-1), 10^N), N the
			// number of mandatory integer digits; only rounding to the picture's
			// fraction digits can carry it up to 10^N itself
			top := pow10Rat(p.intMand)
			if c := rv.Cmp(top); c > 0 {
				return fmt.Sprintf("the mantissa %s is not below 10^%d (the picture's integer part has %d digits)", num, p.intMand, p.intMand)
			} else if c == 0 {
				exact := new(big.Rat).Mul(exactRat(math.Abs(x)), pow10Rat(p.scale-e))
				short := new(big.Rat).Mul(shortestRat(math.Abs(x)), pow10Rat(p.scale-e))
				if exact.Cmp(top) >= 0 && short.Cmp(top) >= 0 {
					return fmt.Sprintf("the mantissa %s is 10^%d although no rounding carried it there: it must be scaled below 10^%d", num, p.intMand, p.intMand)
				}
			}
		}
		rv.Mul(rv, pow10Rat(e))
	} else {
		p.lastMant = new(big.Rat).Set(rv)
	}
	p.lastD = d
	tol := new(big.Rat).Mul(big.NewRat(1, 2), pow10Rat(e-d))
	okBand := false
	for _, X := range []*big.Rat{exactRat(math.Abs(x)), shortestRat(math.Abs(x))} {
		X = new(big.Rat).Mul(X, pow10Rat(p.scale))
		diff := new(big.Rat).Sub(rv, X)
		if diff.Abs(diff).Cmp(tol) <= 0 {
			okBand = true
		}
	}
	if !okBand {
		f, _ := rv.Float64()
		return fmt.Sprintf("the numeral reads back as %v, which is not x (scaled by 10^%d) rounded to %d fraction digits", f, p.scale, d)
	}
	return ""
}

// floatScalingExplains reports whether the numeral the port produced is the
// correct rounding of x after scaling it by a power of ten in float64 the way
// the port does (value *= 100, value *= 1000, or the exponent loops): that is
// the trigger of the known finding, any other wrong numeral is not.
func (p *picture) floatScalingExplains(x float64) bool {
	if p.lastMant == nil || (p.scale == 0 && p.expDigits == 0) {
		return false
	}
	v := math.Abs(x)
	switch p.scale {
	case 2:
		v *= 100
	case 3:
		v *= 1000
	}
	if p.expDigits > 0 && v != 0 {
		maxM := math.Pow(10, float64(p.intMand))
		minM := math.Pow(10, float64(p.intMand-1))
		for v < minM {
			v *= 10
		}
		for v > maxM {
			v /= 10
		}
	}
	// correct rounding of the float-scaled value to d fraction digits
	q := new(big.Rat).Mul(exactRat(v), pow10Rat(p.lastD))
	want := new(big.Rat).Mul(new(big.Rat).SetInt(roundHalfEven(q)), pow10Rat(-p.lastD))
	return want.Cmp(p.lastMant) == 0
}

func c18FormatNumber(r *fw.Rec, rr *prng.R) {
	p := genPicture(rr)
	x := c18Doubles(rr)
	if rr.Intn(4) == 0 && p.expDigits == 0 && p.scale == 0 {
		// a neighbour of a rounding tie at the picture's own precision: the
		// shortest decimal form of x is a tie plus or minus one unit in the
		// 16th/17th digit, so rounding a pre-rounded or a decimal-text value
		// instead of the exact one goes the wrong way
		d := p.fracMand + p.fracOpt
		t, _ := strconv.ParseFloat(fmt.Sprintf("%d.%0*d5", rr.Range(0, 99), d, rr.Intn(int(math.Pow10(d)))), 64)
		if d == 0 {
			t = float64(rr.Range(0, 99)) + 0.5
		}
		x = math.Nextafter(t, math.Inf(rr.Range(0, 1)*2-1))
		if rr.Bool() {
			x = -x
		}
	}
	if math.Abs(x) > 1e22 {
		x = math.Mod(x, 1e12)
	}
	// like $round, formatting is only exact while x scaled to the picture's
	// last digit is exactly representable: |x| * 10^(scale+d) < 2^53
	// (powers of ten are exact and exempt when no scaling is involved)
	{
		d := p.fracMand + p.fracOpt
		lim := new(big.Rat).SetInt(new(big.Int).Lsh(big.NewInt(1), 53))
		sc := new(big.Rat).Mul(new(big.Rat).Abs(shortestRat(x)), pow10Rat(p.scale+d))
		pow10 := x != 0 && math.Pow(10, math.Round(math.Log10(math.Abs(x)))) == math.Abs(x) && p.scale == 0
		if sc.Cmp(lim) >= 0 && !pow10 && p.expDigits == 0 {
			x = math.Round(math.Mod(x, 1e6)*100) / 100
		}
	}
	pic := p.text()
	doc := O{"x": x, "pic": pic}
	prog := "$formatNumber(x, pic)"
	if p.options != nil {
		doc["opt"] = p.options
		prog = "$formatNumber(x, pic, opt)"
	}
	tag := "formatNumber"
	if p.expDigits > 0 {
		tag = "formatNumber-exponent"
	}
	o, _ := c18Eval(r, prog, doc, tag)
	if o.Kind != "value" {
		r.Violation("formatnumber-failed", fmt.Sprintf("valid picture %q, x=%v: %s", pic, x, o.String()), nil)
		return
	}
	s, _ := o.Val.(string)
	if msg := p.checkFormatted(x, s); msg != "" {
		sig := "formatnumber-value"
		if strings.Contains(msg, "reads back") && p.floatScalingExplains(x) {
			sig = "formatnumber-value:float-scaling"
		}
		r.Violation(sig, fmt.Sprintf("$formatNumber(%v, %q) = %q: %s", x, pic, s, msg), nil)
		return
	}
	r.Held()
	r.Sample(tag, map[string]any{"x": x, "picture": pic, "result": s})
}

// invalid pictures: classes whose invalidity is unambiguous in the XPath grammar
func c18InvalidPicture(r *fw.Rec, rr *prng.R) {
	bad := []string{"0.0.0", "0%%", "0%‰", "0‰‰", "abc", "", ";", "0;0;0", "0,.0", "0.,0", "0,,0", "0,", "0#", "#0#", "0.#0", "0.0#0", "0e0e0", "0%e0", "0e0%", "0 0", "#x#", "0.0x0", "0e#", "‰0e00", ";0", "0;", "0#0", "0#,##0.00", "00#0%", "#0#0", "0.0#0#", "0.#0#", "0#0.0"}
	pic := bad[rr.Intn(len(bad))]
	x := c18Doubles(rr)
	if !strings.Contains(pic, ";") && pic != "" && rr.Intn(3) == 0 {
		// one of two sub-pictures is invalid, whichever the number's sign selects
		good := rr.Pick("0", "0.0", "#,##0.00", "0%", "0e0", "(0)")
		if rr.Bool() {
			pic = good + ";" + pic
		} else {
			pic = pic + ";" + good
		}
		if rr.Bool() {
			x = math.Abs(x)
		}
	}
	o, _ := c18Eval(r, "$formatNumber(x, pic)", O{"x": x, "pic": pic}, "formatNumber-invalid-picture")
	if o.Kind != "error" {
		r.Violation("invalid-picture-accepted", fmt.Sprintf("picture %q is outside the decimal-format grammar but $formatNumber(%v) returned %s", pic, x, o.String()), nil)
		return
	}
	r.Held()
	r.Sample("invalid-picture", map[string]any{"picture": pic, "error": o.Err.Error()})
}

// Inputs that are run in every tier whatever the seed: neighbours of rounding
// ties whose scaled value is not a double (the two listed findings of this
// property were first seen on them; the oracle is the same exact decimal
// arithmetic as for the generated cases, the expected numerals are the exact
// values x*100 = 2131.4999999999998 and x*1000 = -217.74999999999997 rounded to
// the picture's last digit).
var c18Pinned = []func(r *fw.Rec){
	func(r *fw.Rec) { c18Round(r, 3918.8000000000006, 12, true) },
	func(r *fw.Rec) { c18Round(r, -5.1834999999999996, 3, true) },
	func(r *fw.Rec) { c18FormatPinned(r, 21.314999999999998, "000%", "2131%", "2132%") },
	func(r *fw.Rec) { c18FormatPinned(r, -0.21774999999999997, "###000.#e000", "-217.7e-003", "-217.8e-003") },
}

// c18FormatPinned: want is the exact result; scaled is what rounding the
// float64 product x*10^k (an exact tie, unlike x*10^k itself) gives.
func c18FormatPinned(r *fw.Rec, x float64, pic, want, scaled string) {
	o, _ := c18Eval(r, "$formatNumber(x, pic)", O{"x": x, "pic": pic}, "formatNumber-pinned")
	if o.Kind != "value" {
		r.Violation("formatnumber-failed", fmt.Sprintf("valid picture %q, x=%v: %s", pic, x, o.String()), nil)
		return
	}
	s, _ := o.Val.(string)
	if s != want {
		sig := "formatnumber-value"
		if s == scaled {
			sig = "formatnumber-value:float-scaling"
		}
		r.Violation(sig, fmt.Sprintf("$formatNumber(%v, %q) = %q: the exact value rounds to %q", x, pic, s, want), nil)
		return
	}
	r.Held()
	r.Sample("formatNumber-pinned", map[string]any{"x": x, "picture": pic, "result": s})
}

func init() {
	fw.Register(&fw.Prop{
		ID: "C18", Title: "Number conversion, rounding and formatting are exact and always terminate",
		Rule: "cases: (a) exhaustive: $number of every string of <=4 (quick) / <=6 (thorough) symbols over {0 1 9 . - + e E space}; (b) PRNG-generated doubles (integers, decimal fractions with 0..6 digits incl. exact ties and their float neighbours, powers of ten 1e-12..1e21, 0, -0, random mantissas) for $string/$number round trips (shortest-digits check), $round with precisions -6..12 and absent (under |x|*10^p < 2^53), $floor/$ceil/$abs/$sqrt/$power, $formatBase with bases 0..40 incl. halves and absent; " +
			"(c) $formatNumber with pictures generated from the decimal-format grammar (optional/mandatory digits, regular/single/irregular integer grouping, fraction grouping, percent, per-mille, exponent, prefix/suffix text, negative sub-picture, custom decimal/grouping/minus options) and with pictures from 28 unambiguous invalid classes, alone and as one of two sub-pictures (for numbers of either sign). " +
			"Oracles: strconv and math/big: exact half-even rounding of the shortest decimal; big.Int radix text; the formatted numeral is parsed back (affixes, separator positions, mandatory digits checked) and must equal x scaled and rounded to the picture's precision within half a unit of the last digit. Non-termination is judged by the CPU watchdog. non-trivial = every case; distinct by (program, input)",
		Assumptions: []string{"$formatNumber tie rule and whether x means the binary value or its shortest decimal are not fixed by the statement: both are accepted within half a unit of the last digit", "$number accepts leading zeros (the stated grammar)"},
		Plan: func(tier string, seed uint64) *fw.Plan {
			l := 4
			nRand := int64(40000)
			if tier == "thorough" {
				l = 6
				nRand = 1500000
			}
			nNum := enumStrings(c18NumAlpha, l)
			nPinned := int64(len(c18Pinned))
			return &fw.Plan{N: nNum + nRand + nPinned,
				Subspaces: []string{fmt.Sprintf("$number over all %d strings of length<=%d over %v", nNum, l, c18NumAlpha)},
				Run: func(i int64, r *fw.Rec) {
					if i < nNum {
						c18Number(r, nthString(c18NumAlpha, i))
						return
					}
					if i >= nNum+nRand {
						c18Pinned[i-nNum-nRand](r)
						return
					}
					rr := prng.New(seed, 0xC18, uint64(i))
					switch i % 10 {
					case 0:
						c18String(r, c18Doubles(rr))
					case 1:
						x := c18Doubles(rr)
						c18Number(r, strconv.FormatFloat(x, byte("efg"[rr.Intn(3)]), rr.Range(-1, 8), 64))
					case 2, 3:
						if rr.Intn(12) == 0 {
							// the largest double below one half, at precision p: adding 0.5
							// to it gives exactly 1
							p := rr.Range(-3, 6)
							x, _ := strconv.ParseFloat(fmt.Sprintf("%s49999999999999994e%d", rr.Pick("", "-"), -17-p), 64)
							c18Round(r, x, p, p != 0 || rr.Bool())
							break
						}
						if rr.Intn(6) == 0 {
							// |x| * 10^p an integer (odd or even) in [2^52, 2^53): the scaled
							// value is already integral and adding 0.5 to it is not exact
							p := rr.Range(-3, 12)
							m := int64(1)<<52 + int64(rr.U64()%(uint64(1)<<52))
							x, _ := strconv.ParseFloat(fmt.Sprintf("%s%de%d", rr.Pick("", "-"), m, -p), 64)
							c18Round(r, x, p, true)
							break
						}
						c18Round(r, c18Doubles(rr), rr.Range(-6, 12), rr.Intn(5) > 0)
					case 4:
						c18Math(r, rr)
					case 5:
						c18FormatBase(r, rr)
					case 6:
						c18InvalidPicture(r, rr)
					default:
						c18FormatNumber(r, rr)
					}
				}}
		},
	})
}
