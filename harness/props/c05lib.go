package props

import (
	"fmt"
	"strings"

	"verif/harness/fw"
	"verif/harness/gen"
	"verif/harness/obs"
	"verif/harness/prng"
)

// C05, library carry-over histories: one built-in called with all of its
// arguments taken from the input, evaluated over a group of inputs that share
// one argument (a picture string, a pattern, a radix, an options object ...)
// and differ in the others.  State kept by the function library between calls
// (anything keyed on an argument value) shows as an outcome that depends on
// what was evaluated before.

var c05Millis = []float64{0, 1, -1, 999, 1538323085762, 951782400000, 951868799999, 1709164800000, -62135596800000,
	253402300799999, -86400000, 1e12, 1234567890123, 1521801216617, 1483228800000, 1514764799999, -1500000000000, 86399999}

var c05Zones = []interface{}{"+0100", "-0500", "+0530", "-0030", "+1300", "-1200", "+0000", "+1200", "-0930", "+0545", nil, "+01:00", "0100", "Z", "+2500", ""}

var c05DatePres = map[byte][]string{
	'Y': {"", "0001", "01", "1", "I", "i", "w", "W", "Ww", "1o", "9999", "0,001", "Wwo", "##01"},
	'M': {"", "01", "1", "I", "i", "N", "n", "Nn", "w", "W", "Ww", "1o", "A", "a"},
	'D': {"", "01", "1", "1o", "I", "i", "w", "Ww", "Wwo", "A", "a"},
	'd': {"", "001", "1", "1o", "w", "I"},
	'F': {"", "N", "n", "Nn", "0", "1", "1o", "w", "Ww"},
	'W': {"", "01", "1", "1o", "I", "w"},
	'w': {"", "1", "1o", "I", "w"},
	'H': {"", "01", "1", "I", "w", "Ww"},
	'h': {"", "01", "1", "I", "w"},
	'P': {"", "N", "n", "Nn"},
	'm': {"", "01", "1", "I", "w"},
	's': {"", "01", "1", "I", "w"},
	'f': {"", "001", "1", "01", "000000", "9", "I"},
	'Z': {"", "Z", "0", "00", "01:01", "0101", "01", "1", "t", "01:01t", "N", "I"},
	'z': {"", "Z", "0", "01:01", "0101", "t", "N"},
	'C': {"", "N", "n"},
	'E': {"", "N", "n"},
}

var c05DateWidth = []string{"", "", "", ",2", ",3", ",2-2", ",*-4", ",1-*", ",6", ",*-2", ",3-3", ",0", ",x"}

var c05DateLit = []string{"", "", " ", ":", "-", "/", "T", " at ", "[[", "]]", "(", ")", ", "}

const c05DateComps = "YMDdFWwHhPmsfZzCEYMDHmsZ"

func c05DatePicture(r *prng.R) string {
	if r.Intn(12) == 0 {
		return r.Pick("[Y]-[M]-[D", "no markers", "[]", "[Y][", "]", "[Q]", "[Y,]", "[[Y]", "")
	}
	var sb strings.Builder
	n := r.Range(1, 4)
	for i := 0; i < n; i++ {
		sb.WriteString(c05DateLit[r.Intn(len(c05DateLit))])
		c := c05DateComps[r.Intn(len(c05DateComps))]
		ps := c05DatePres[c]
		sb.WriteString("[" + string(c) + ps[r.Intn(len(ps))] + c05DateWidth[r.Intn(len(c05DateWidth))] + "]")
	}
	sb.WriteString(c05DateLit[r.Intn(len(c05DateLit))])
	return sb.String()
}

var c05NumOpts = []interface{}{nil, nil, O{"decimal-separator": ",", "grouping-separator": "."}, O{"zero-digit": "٠"}, O{"minus-sign": "~"},
	O{"percent": "pc"}, O{"per-mille": "pm"}, O{"exponent-separator": "E"}, O{"digit": "@"}, O{"pattern-separator": "|"}, O{"infinity": "inf"}, O{"NaN": "nan"},
	O{"decimal-separator": "!"}, "bad", O{"zero-digit": "a"}}

var c05Nums = []float64{0, 1, -1, 0.5, -0.5, 1.5, 2.5, 12345.678, -12345.678, 0.001, 1e6, 123456789, 1e-7, 1e21, 99.995, -0.0001, 1234.5, 7, 42, 0.125}

var c05NumPics = []string{"#,##0.00", "0.0e0", "#0%", "00.0;(00.0)", "#,###", "##0.###", "0‰", "0", "#", "00", "#.#", "0,0.0", "1", "#,##,##0", "0.00e00", "#0.0#;minus #0.0#", "", ";", "0.0.0", "٠٠.٠", "@@.@", "0,00|(0,00)"}

// arguments for the generic family
func c05Scalar(r *prng.R) interface{} {
	switch r.Intn(12) {
	case 0:
		return c05Nums[r.Intn(len(c05Nums))]
	case 1:
		return float64(r.Range(-3, 12))
	case 2:
		return r.Pick("", "a", "abc", "quux quay", "a,b,,c", "12", "-4.5e2", "0x1F", " pad ", "😀é漢", "aXbXc", "[Y]-[M]", "#0.0", "%41%zz", "YWJj", "true")
	case 3:
		return r.Bool()
	case 4:
		return nil // absent
	case 5:
		return A{1.0, 2.0, 3.0}
	case 6:
		return A{"b", "a", "b"}
	case 7:
		return A{}
	case 8:
		return O{"k": 1.0}
	case 9:
		return O{}
	case 10:
		return A{A{1.0}, "x", O{"k": "v"}}
	}
	return r.Pick("x", "-", ",", "b", "X", " ", "q")
}

type c05Family struct {
	name string
	fn   string
	gen  func(r *prng.R, k int) [][]interface{}
}

func c05Share(r *prng.R, k, nargs, shared int, sharedVal interface{}, other func(j int) interface{}) [][]interface{} {
	out := make([][]interface{}, k)
	for i := range out {
		t := make([]interface{}, nargs)
		for j := range t {
			if j == shared {
				t[j] = sharedVal
			} else {
				t[j] = other(j)
			}
		}
		out[i] = t
	}
	return out
}

var c05GenericFns []gen.Builtin

func init() {
	skip := map[string]bool{"map": true, "filter": true, "reduce": true, "single": true, "each": true, "sift": true, "zip": true, "error": true,
		"random": true, "shuffle": true, "now": true, "millis": true, "pad": true}
	for _, b := range gen.Builtins {
		if !skip[b.Name] && b.Det {
			c05GenericFns = append(c05GenericFns, b)
		}
	}
}

var c05Families = []c05Family{
	{"fromMillis(ms,picture,zone):shared-picture", "fromMillis", func(r *prng.R, k int) [][]interface{} {
		return c05Share(r, k, 3, 1, c05DatePicture(r), func(j int) interface{} {
			if j == 0 {
				return c05Millis[r.Intn(len(c05Millis))]
			}
			return c05Zones[r.Intn(len(c05Zones))]
		})
	}},
	{"fromMillis(ms,picture,zone):shared-zone", "fromMillis", func(r *prng.R, k int) [][]interface{} {
		return c05Share(r, k, 3, 2, c05Zones[r.Intn(len(c05Zones))], func(j int) interface{} {
			if j == 0 {
				return c05Millis[r.Intn(len(c05Millis))]
			}
			return c05DatePicture(r)
		})
	}},
	{"fromMillis(ms,picture):shared-picture", "fromMillis", func(r *prng.R, k int) [][]interface{} {
		return c05Share(r, k, 2, 1, c05DatePicture(r), func(j int) interface{} { return c05Millis[r.Intn(len(c05Millis))] })
	}},
	{"toMillis(text,picture):shared-picture", "toMillis", func(r *prng.R, k int) [][]interface{} {
		return c05Share(r, k, 2, 1, c05DatePicture(r), func(j int) interface{} {
			return r.Pick("2018-02-03", "2018-02-03T10:20:30.456Z", "12/31/1999", "3 Jan 2001", "1999", "23:59", "2000-02-29 12:00 +01:00", "", "x", "0001-01-01", "17 March 2017 at 09:15 pm", "MMXVIII", "2018-W05-6", "2018-034")
		})
	}},
	{"formatNumber(v,picture,options):shared-picture", "formatNumber", func(r *prng.R, k int) [][]interface{} {
		var pic string
		if r.Bool() {
			pic = genPicture(r).text()
		} else {
			pic = c05NumPics[r.Intn(len(c05NumPics))]
		}
		return c05Share(r, k, 3, 1, pic, func(j int) interface{} {
			if j == 0 {
				return c05Nums[r.Intn(len(c05Nums))]
			}
			return c05NumOpts[r.Intn(len(c05NumOpts))]
		})
	}},
	{"formatNumber(v,picture,options):shared-options", "formatNumber", func(r *prng.R, k int) [][]interface{} {
		return c05Share(r, k, 3, 2, c05NumOpts[r.Intn(len(c05NumOpts))], func(j int) interface{} {
			if j == 0 {
				return c05Nums[r.Intn(len(c05Nums))]
			}
			return c05NumPics[r.Intn(len(c05NumPics))]
		})
	}},
	{"formatBase(v,radix):shared-radix", "formatBase", func(r *prng.R, k int) [][]interface{} {
		return c05Share(r, k, 2, 1, float64(r.Range(0, 38)), func(j int) interface{} { return c05Nums[r.Intn(len(c05Nums))] * float64(r.Range(1, 3)) })
	}},
	{"generic", "", nil},
}

// object constructors (plain, grouping, nested, as a path step) whose member
// values bind variables that other members read: all members share one scope,
// so the outcome must not depend on an unspecified evaluation order
func c05MemberScope(i int64, seed uint64, r *fw.Rec) {
	rr := prng.New(seed, 0xC05C, uint64(i))
	n := rr.Range(3, 6)
	vars := []string{"x", "y"}
	var members []string
	for k := 0; k < n; k++ {
		v := vars[rr.Intn(2)]
		var val string
		switch rr.Intn(5) {
		case 0:
			val = fmt.Sprintf("$%s := %d", v, rr.Range(1, 9))
		case 1:
			val = fmt.Sprintf("$%s := $%s + 1", v, vars[rr.Intn(2)])
		case 2:
			val = "$" + v + " + 1"
		case 3:
			val = fmt.Sprintf("[$x, $y, %d]", k)
		default:
			val = "$" + v
		}
		members = append(members, fmt.Sprintf("%q: %s", fmt.Sprintf("m%d", k), val))
	}
	obj := "{" + strings.Join(members, ", ") + "}"
	var prog string
	switch rr.Intn(4) {
	case 0:
		prog = obj
	case 1:
		prog = "items" + strings.Replace(obj, `"m0"`, "k", 1)
	case 2:
		prog = "items." + obj
	default:
		prog = `{"outer": ` + obj + `, "after": [$x, $y]}`
	}
	doc := O{"items": A{O{"k": "a", "v": 1.0}, O{"k": "b", "v": 2.0}, O{"k": "a", "v": 3.0}}}
	docJSON := gen.JSON(doc)
	r.Begin(prog, docJSON)
	r.Tag("member-scope")
	e, co := obs.Compile(prog)
	if e == nil {
		r.Violation("harness:member-scope-program-does-not-compile", prog+": "+co.String(), nil)
		return
	}
	first := ""
	for k := 0; k < 8; k++ {
		r.Evals(1)
		o := obs.Eval(e, decodeDoc(docJSON))
		if k == 0 {
			r.Outcome(o.Class())
			first = digest(o, false, false)
			continue
		}
		if d := digest(o, false, false); d != first {
			r.Violation("outcome-changed:member-evaluation-order", fmt.Sprintf("evaluation #%d of %s gave %q, the first gave %q (equal input)", k+1, prog, clipS(d), clipS(first)), map[string]any{"input": docJSON})
			return
		}
	}
	r.Nontrivial(prog)
	r.Held()
	r.Sample("member-scope", map[string]any{"prog": prog, "input": docJSON, "outcome": clipS(first)})
}

// context carry-over: a context-defaulting built-in reached WITHOUT a call site
// of its own (through ~>, a partial application, a higher-order function) has
// no context item. Built-ins called through a callee that is not a plain
// variable, under various contexts, must not leave their context behind for it.
var c05Indirect = []string{`"world" ~> $contains`, `$map(["-"], $uppercase ~> $substringBefore)`, `$split(?)(",")`, `$substringAfter(?)("x")`, `"a,b" ~> $split`, `$map(["l"], $substringBefore)`,
	`$filter(["q"], $contains)`, `$pad(?)(3)`, `($f := $substring; $map([1], $f))`, `"o" ~> $substringAfter`, `$map([2], $power)`, `$lookup(?)("k")`, `$map(["k"], $lookup)`, `$each(?)(function($v){$v})`}

var c05Callees = []string{`(%s ? $substring : $substringAfter)(%s)`, `($substringBefore)(%s)`, `[$contains, $split][%d](%s)`, `($pad)(%s)`, `(true ? $lookup : $sum)(%s)`, `[$power][0](%s)`, `($each)(function($v){$v})`}

func c05ContextLeak(i int64, seed uint64, r *fw.Rec) {
	rr := prng.New(seed, 0xC05D, uint64(i))
	prog := c05Indirect[rr.Intn(len(c05Indirect))]
	r.Begin(prog, "{}")
	r.Tag("context-carry-over")
	e, co := obs.Compile(prog)
	if e == nil {
		r.Violation("harness:indirect-program-does-not-compile", prog+": "+co.String(), nil)
		return
	}
	r.Evals(1)
	first := digest(obs.Eval(e, map[string]interface{}{}), false, false)
	for k := 0; k < 3; k++ {
		// a built-in called through a callee that is not a plain variable, under a
		// context that differs from case to case
		ctx := fmt.Sprintf("c%d,x%dl-q", rr.Intn(1000), rr.Intn(10))
		var arg string
		switch rr.Intn(3) {
		case 0:
			arg = `"x"`
		case 1:
			arg = "1"
		default:
			arg = `","`
		}
		tmpl := c05Callees[rr.Intn(len(c05Callees))]
		var call string
		switch strings.Count(tmpl, "%") {
		case 0:
			call = tmpl
		case 1:
			call = fmt.Sprintf(tmpl, arg)
		default:
			if strings.Contains(tmpl, "%d") {
				call = fmt.Sprintf(tmpl, rr.Intn(2), arg)
			} else {
				call = fmt.Sprintf(tmpl, rr.Pick("true", "false"), arg)
			}
		}
		var doc interface{} = map[string]interface{}{"s": ctx, "o": map[string]interface{}{"k": ctx}}
		ip := "s." + call
		if strings.Contains(call, "$lookup") || strings.Contains(call, "$each") {
			ip = "o." + call
		}
		if ie, _ := obs.Compile(ip); ie != nil {
			r.Evals(1)
			obs.Eval(ie, doc)
		}
		r.Evals(1)
		if d := digest(obs.Eval(e, map[string]interface{}{}), false, false); d != first {
			r.Violation("outcome-changed:context-carried-over", fmt.Sprintf("%s gave %q, then %q after %s was evaluated on %v", prog, clipS(first), clipS(d), ip, doc), nil)
			return
		}
	}
	r.Nontrivial(prog + fmt.Sprint(i))
	r.Outcome("compared")
	r.Held()
	r.Sample("context-carry-over", map[string]any{"prog": prog, "outcome": clipS(first)})
}

func c05Lib(i int64, seed uint64, r *fw.Rec) {
	if i%9 == 7 {
		c05ContextLeak(i, seed, r)
		return
	}
	if i%9 == 8 {
		c05MemberScope(i, seed, r)
		return
	}
	if i%9 == 6 {
		if i%450 == 6 {
			c05Clock(i, seed, r)
			return
		}
		if i%18 == 6 {
			c05Structure(i, seed, r)
			return
		}
		if i%27 == 15 {
			c05Regex(i, seed, r)
			return
		}
		c05Rebind(i, seed, r)
		return
	}
	rr := prng.New(seed, 0xC05B, uint64(i))
	f := c05Families[int(i)%len(c05Families)]
	k := rr.Range(3, 5)
	fn := f.fn
	var tuples [][]interface{}
	if f.gen != nil {
		tuples = f.gen(rr, k)
	} else {
		b := c05GenericFns[rr.Intn(len(c05GenericFns))]
		fn = b.Name
		lo, hi := b.Min, b.Max
		if lo < 1 {
			lo = 1
		}
		if hi < lo {
			hi = lo
		}
		if hi > 4 {
			hi = 4
		}
		nargs := rr.Range(lo, hi)
		tuples = c05Share(rr, k, nargs, rr.Intn(nargs), c05Scalar(rr), func(j int) interface{} { return c05Scalar(rr) })
	}
	nargs := len(tuples[0])
	names := []string{"a0", "a1", "a2", "a3"}[:nargs]
	prog := "$" + fn + "(" + strings.Join(names, ", ") + ")"
	docs := make([]interface{}, k)
	docJSON := make([]string, k)
	for j, t := range tuples {
		d := O{}
		for a, v := range t {
			if v != nil {
				d[names[a]] = v
			}
		}
		docs[j] = d
		docJSON[j] = gen.JSON(d)
	}
	r.Begin(prog, docJSON[0])
	r.Tag("library-carry-over:" + f.name)
	r.Tag("builtin:" + fn)
	e, co := obs.Compile(prog)
	e2, _ := obs.Compile(prog)
	if e == nil || e2 == nil {
		r.Violation("harness:lib-program-does-not-compile", prog+": "+co.String(), nil)
		return
	}
	first := make([]string, k)
	productive := false
	for j := 0; j < k; j++ {
		r.Evals(1)
		o := obs.Eval(e, docs[j])
		r.Outcome(o.Class())
		if o.Kind == "value" {
			productive = true
		}
		first[j] = digest(o, false, false)
	}
	check := func(ex int, j int, when string) bool {
		r.Evals(1)
		var o obs.Outcome
		if ex == 0 {
			o = obs.Eval(e, docs[j])
		} else {
			o = obs.Eval(e2, docs[j])
		}
		if d := digest(o, false, false); d != first[j] {
			r.Violation("library-carry-over", fmt.Sprintf("%s on input #%d %s gave %q; its first evaluation (inputs #0..#%d in order) gave %q", prog, j, when, clipS(d), k-1, clipS(first[j])),
				map[string]any{"inputs": docJSON, "input": docJSON[j]})
			return false
		}
		return true
	}
	for j := k - 1; j >= 0; j-- {
		if !check(1, j, "(second Expr of the same text, inputs in reverse order)") {
			return
		}
	}
	if !check(0, 0, "(first Expr again, after all other inputs)") {
		return
	}
	if productive {
		r.Nontrivial(prog + "\x00" + strings.Join(docJSON, "\x00"))
	}
	r.Held()
	r.Sample("lib:"+f.name, map[string]any{"prog": prog, "inputs": docJSON, "first_outcome": clipS(first[0])})
}
