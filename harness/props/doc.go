// Package props registers the per-property monitors.
package props
