package props

import (
	"math"
	"fmt"

	"verif/harness/fw"
	"verif/harness/jast"
	"verif/harness/judge"
	"verif/harness/obs"
	"verif/harness/prng"
)

// C15: array, higher-order and aggregate functions.

var c15Domain = []interface{}{1.0, "1", O{"a": 1.0}, O{"a": "1"}, A{1.0}}

func c15Array(i int64) A {
	l := 0
	for n := int64(1); i >= n; n *= 5 {
		i -= n
		l++
	}
	out := make(A, l)
	for j := l - 1; j >= 0; j-- {
		out[j] = c15Domain[i%5]
		i /= 5
	}
	return out
}

const c15NArr = 1 + 5 + 25 + 125

func lam(params []string, body jast.Node) jast.Node { return &jast.Lambda{Params: params, Body: body} }
func v(n string) jast.Node                          { return &jast.Var{Name: n} }
func call(fn string, args ...jast.Node) jast.Node   { return &jast.Call{Fn: &jast.Var{Name: fn}, Args: args} }
func obj(kv ...interface{}) jast.Node {
	o := &jast.Object{}
	for i := 0; i+1 < len(kv); i += 2 {
		o.Pairs = append(o.Pairs, [2]jast.Node{&jast.Str{V: kv[i].(string)}, kv[i+1].(jast.Node)})
	}
	return o
}

// recording callbacks: what they were called with becomes the result
var c15Callbacks = []func() jast.Node{
	func() jast.Node { return lam(nil, &jast.Str{V: "c"}) },
	func() jast.Node { return lam([]string{"v"}, obj("v", v("v"))) },
	func() jast.Node { return lam([]string{"v", "i"}, obj("v", v("v"), "i", v("i"))) },
	func() jast.Node {
		return lam([]string{"v", "i", "a"}, obj("v", v("v"), "i", v("i"), "n", call("count", v("a"))))
	},
	func() jast.Node { return v("string") },
	func() jast.Node { return v("type") },
	func() jast.Node { return &jast.Call{Fn: v("append"), Args: []jast.Node{&jast.Placeholder{}, &jast.Num{V: 9}}} },
	func() jast.Node {
		return lam([]string{"v", "i"}, &jast.Cond{If: &jast.Bin{Op: "=", L: v("i"), R: &jast.Num{V: 1}}, Then: &jast.Name{V: "nothing"}, Else: &jast.Array{Items: []jast.Node{v("v")}}})
	},
	func() jast.Node { return &jast.Apply{L: v("string"), R: v("length")} },
	// a function held by value after passing through a library function
	func() jast.Node { return call("single", v("string"), lam([]string{"f"}, &jast.Bool{V: true})) },
	func() jast.Node {
		return &jast.Pred{X: call("filter", v("type"), lam([]string{"f"}, &jast.Bool{V: true})), Filters: []jast.Node{&jast.Num{V: 0}}}
	},
	// declared with no parameters: must be called without arguments
	func() jast.Node { return &jast.Lambda{Params: nil, Sig: ":s", Body: &jast.Str{V: "typed0"}} },
	func() jast.Node { return &jast.Lambda{Params: []string{"v"}, Sig: "x:x", Body: obj("v", v("v"))} },
}

var c15Preds = []func() jast.Node{
	func() jast.Node { return lam([]string{"v", "i"}, &jast.Bin{Op: "!=", L: v("i"), R: &jast.Num{V: 1}}) },
	func() jast.Node {
		return lam([]string{"v"}, &jast.Bin{Op: "=", L: call("type", v("v")), R: &jast.Str{V: "number"}})
	},
	func() jast.Node {
		return lam([]string{"v", "i", "a"}, &jast.Bin{Op: ">", L: call("count", v("a")), R: &jast.Bin{Op: "+", L: v("i"), R: &jast.Num{V: 1}}})
	},
	func() jast.Node { return lam(nil, &jast.Bool{V: true}) },
	func() jast.Node { return lam([]string{"v"}, &jast.Bin{Op: "=", L: v("v"), R: &jast.Str{V: "1"}}) },
	func() jast.Node { return lam([]string{"v"}, &jast.Bin{Op: "=", L: v("v"), R: obj("a", &jast.Num{V: 1})}) },
	func() jast.Node { return v("boolean") },
	func() jast.Node { return lam([]string{"v"}, v("v")) },
	func() jast.Node { return &jast.Lambda{Params: nil, Sig: ":b", Body: &jast.Bool{V: true}} },
	// truthiness of results that the library hands over as Go integers
	func() jast.Node { return lam([]string{"v", "i"}, v("i")) },
	func() jast.Node { return v("count") },
	func() jast.Node { return lam([]string{"v"}, call("length", call("string", v("v")))) },
	func() jast.Node { return lam([]string{"v", "i", "a"}, &jast.Bin{Op: "-", L: call("count", v("a")), R: &jast.Num{V: 2}}) },
}

var c15Folds = []func() jast.Node{
	func() jast.Node {
		return lam([]string{"a", "b"}, &jast.Bin{Op: "&", L: &jast.Bin{Op: "&", L: &jast.Bin{Op: "&", L: call("string", v("a")), R: &jast.Str{V: "("}}, R: call("string", v("b"))}, R: &jast.Str{V: ")"}})
	},
	func() jast.Node { return lam([]string{"a"}, v("a")) },           // wrong arity
	func() jast.Node { return lam([]string{"a", "b", "c"}, v("a")) }, // wrong arity
	func() jast.Node { return v("append") },
}

// c15Program builds the k-th program shape around the array expression xs.
func c15Program(k int, xs, ys jast.Node) (jast.Node, string) {
	nm, nf, nr := len(c15Callbacks), len(c15Preds), len(c15Folds)
	switch {
	case k < nm:
		return call("map", xs, c15Callbacks[k]()), fmt.Sprintf("map/cb%d", k)
	case k < nm+nf:
		return call("filter", xs, c15Preds[k-nm]()), fmt.Sprintf("filter/p%d", k-nm)
	case k < nm+2*nf:
		return call("single", xs, c15Preds[k-nm-nf]()), fmt.Sprintf("single/p%d", k-nm-nf)
	case k < nm+2*nf+nr:
		return call("reduce", xs, c15Folds[k-nm-2*nf]()), fmt.Sprintf("reduce/f%d", k-nm-2*nf)
	case k < nm+2*nf+2*nr:
		return call("reduce", xs, c15Folds[k-nm-2*nf-nr](), &jast.Str{V: "seed"}), fmt.Sprintf("reduce-init/f%d", k-nm-2*nf-nr)
	}
	k -= nm + 2*nf + 2*nr
	switch k {
	case 0:
		return call("append", xs, ys), "append"
	case 1:
		return call("reverse", xs), "reverse"
	case 2:
		return call("zip", xs, ys), "zip2"
	case 3:
		return call("zip", xs, ys, xs), "zip3"
	case 4:
		return call("distinct", xs), "distinct"
	case 5:
		return call("count", xs), "count"
	case 6:
		return call("sum", xs), "sum"
	case 7:
		return call("max", xs), "max"
	case 8:
		return call("min", xs), "min"
	case 9:
		return call("average", xs), "average"
	case 10:
		return call("distinct", call("append", xs, ys)), "distinct-append"
	case 11:
		return call("zip", xs), "zip1"
	case 12:
		// equal containers, one of them holding an array as a library function
		// builds it (a []string), with text that encoders write in different ways
		str := "x\u00a0y\u007f\u00ad,z"
		return call("distinct", call("append", &jast.Array{Items: []jast.Node{
			obj("k", call("split", &jast.Str{V: str}, &jast.Str{V: ","})), obj("k", lit(A{"x\u00a0y\u007f\u00ad", "z"}))}}, xs)), "distinct-library-string-array"
	case 13:
		// ... and the whole-array argument of $map for a scalar (a []float64)
		return call("map", &jast.Num{V: 1000000}, lam([]string{"v", "i", "a"}, call("count", call("distinct",
			&jast.Array{Items: []jast.Node{obj("k", v("a")), obj("k", lit(A{1000000.0})), obj("k", lit(A{1e-7}))}})))), "distinct-library-number-array"
	case 14:
		// functions as members: different functions are different values, the
		// same function twice is one, and what is kept can still be called
		f, g := v("f"), v("g")
		blk := func(e jast.Node) jast.Node {
			return &jast.Block{Exprs: []jast.Node{
				&jast.Assign{Name: "f", Val: lam([]string{"x"}, &jast.Bin{Op: "+", L: v("x"), R: &jast.Num{V: 1}})},
				&jast.Assign{Name: "g", Val: lam([]string{"x"}, &jast.Bin{Op: "*", L: v("x"), R: &jast.Num{V: 2}})}, e}}
		}
		return blk(&jast.Array{Items: []jast.Node{
			// what is kept is the function itself (functions are equal only to themselves)
			&jast.Bin{Op: "=", L: call("distinct", f), R: f}, &jast.Bin{Op: "=", L: call("distinct", v("sum")), R: v("sum")},
			&jast.Bin{Op: "=", L: &jast.Pred{X: call("distinct", &jast.Array{Items: []jast.Node{g, f, g}}), Filters: []jast.Node{&jast.Num{V: 1}}}, R: f},
			&jast.Bin{Op: "=", L: call("distinct", f), R: g},
			call("map", call("distinct", &jast.Array{Items: []jast.Node{f, g, f, v("sum"), v("count"), v("sum")}}), lam([]string{"h"}, &jast.Call{Fn: v("h"), Args: []jast.Node{&jast.Num{V: 5}}})),
			call("count", call("distinct", call("append", &jast.Array{Items: []jast.Node{
				&jast.Array{Items: []jast.Node{f}}, &jast.Array{Items: []jast.Node{g}}, &jast.Array{Items: []jast.Node{f}}, &jast.Array{},
				obj("k", v("sum")), obj("k", v("count")), obj("k", v("sum"))}}, xs)))}}), "distinct-functions"
	case 15:
		// the argument is still what it was after the call (seen through a
		// variable that holds it, next to the result)
		x := v("x")
		return &jast.Block{Exprs: []jast.Node{&jast.Assign{Name: "x", Val: xs}, &jast.Array{Items: []jast.Node{
			&jast.Array{Items: []jast.Node{call("reverse", x)}}, &jast.Array{Items: []jast.Node{x}},
			&jast.Array{Items: []jast.Node{call("zip", x, call("reverse", x))}}, &jast.Array{Items: []jast.Node{call("append", x, call("reverse", x))}},
			&jast.Array{Items: []jast.Node{call("distinct", x)}}, &jast.Array{Items: []jast.Node{call("append", x, ys)}},
			&jast.Array{Items: []jast.Node{call("filter", x, lam([]string{"e", "i"}, &jast.Bin{Op: ">", L: v("i"), R: &jast.Num{V: 0}}))}},
			&jast.Array{Items: []jast.Node{call("count", call("shuffle", x))}}, &jast.Array{Items: []jast.Node{x}}}}}}, "argument-unchanged"
	case 16:
		// the mean of large numbers is an ordinary number although their total is not
		big := func(ns ...float64) jast.Node {
			a := A{}
			for _, n := range ns {
				a = append(a, n)
			}
			return call("average", lit(a))
		}
		return &jast.Array{Items: []jast.Node{big(1e308, 1e308), big(-1e308, -1e308, -1e308, -1e308), big(1.5e308, 1e308), big(1e308, -1e308, 1e308, 5e307),
			big(1.7976931348623157e308, 1.7976931348623157e308), call("sum", lit(A{1.0, 2.0}))}}, "average-of-large-numbers"
	case 17:
		// equal objects with several members (written in different member orders,
		// nested too): one value, however the members of a Go map come out
		o1 := lit(O{"a": 1.0, "b": "x", "c": A{1.0, 2.0}, "d": O{"p": 1.0, "q": 2.0, "r": 3.0}})
		o2 := &jast.Object{Pairs: [][2]jast.Node{{&jast.Str{V: "d"}, lit(O{"r": 3.0, "q": 2.0, "p": 1.0})}, {&jast.Str{V: "c"}, lit(A{1.0, 2.0})}, {&jast.Str{V: "b"}, &jast.Str{V: "x"}}, {&jast.Str{V: "a"}, &jast.Num{V: 1}}}}
		o3 := lit(O{"a": 1.0, "b": "x", "c": A{1.0, 2.0}, "d": O{"p": 1.0, "q": 2.0, "r": 4.0}})
		return call("distinct", call("append", &jast.Array{Items: []jast.Node{o1, o2, o3, o1, o2}}, xs)), "distinct-objects-with-several-members"
	}
	return call("count", call("shuffle", xs)), "shuffle-count"
}

func c15NProg() int { return len(c15Callbacks) + 2*len(c15Preds) + 2*len(c15Folds) + 19 }

var c15Pool = []interface{}{1.0, 2.0, 2.0, 3.0, -1.0, 0.5, "1", "a", "a", "", true, false, A{1.0}, A{1.0}, A{A{1.0}}, A{}, O{"a": 1.0}, O{"a": 1.0}, O{"a": "1"}, O{}, 1e21,
	// zero with and without sign inside containers (equal by value)
	A{0.0}, A{math.Copysign(0, -1)}, O{"a": 0.0}, O{"a": math.Copysign(0, -1)},
	// strings that spell the JSON text of other members
	"[1]", "{\"a\":1}", "[]", "{}", "[[1]]", "true", "2", "\"a\""}

func c15RandArr(r *prng.R) interface{} {
	switch r.Intn(12) {
	case 0:
		return c15Pool[r.Intn(len(c15Pool))] // scalar in array position
	case 1:
		return nil // marks "missing"
	case 2, 3, 4:
		n := r.Intn(9)
		a := make(A, n)
		for i := range a {
			a[i] = []float64{1, 2, 3, -4, 0.5, 1e21, 0, 2}[r.Intn(8)]
		}
		return a
	}
	n := r.Intn(9)
	a := make(A, n)
	for i := range a {
		a[i] = c15Pool[r.Intn(len(c15Pool))]
	}
	return a
}

func arrExpr(val interface{}, name string, doc O, literal bool) jast.Node {
	if val == nil {
		return &jast.Name{V: "nothing"}
	}
	if literal {
		return lit(val)
	}
	doc[name] = val
	// a one-step path returns an array member as it is
	return &jast.Name{V: name}
}

func init() {
	np := c15NProg()
	nEx := int64(c15NArr) * int64(np) * 2
	fw.Register(&fw.Prop{
		ID: "C15", Title: "Array, higher-order and aggregate functions compute their definitions",
		Rule: fmt.Sprintf("cases: (a) exhaustive: all %d arrays of length<=3 over the 5-value domain {1, \"1\", {\"a\":1}, {\"a\":\"1\"}, [1]} x %d program shapes ($map with 9 callbacks that record (value,index,array) for arity 0..3, built-ins, a partial, a chain, a callback returning no value; $filter/$single with 8 predicates; $reduce with a non-commutative fold, wrong-arity functions and a built-in, with and without initial value; $append $reverse $zip(1..3) $distinct $count $sum $max $min $average $shuffle) x array supplied as literal / as input member; ", c15NArr, np) +
			"(b) PRNG-generated arrays of <=8 members over numbers, strings, booleans, nested arrays, objects with duplicates and value-equal-kind-different members, scalars and missing values in array position, number arrays for the aggregates. Oracle: reference model written from the definitions (exact); $shuffle judged by laws (same multiset, same length, not always the identity). non-trivial = array of >=2 members; distinct by (program, input)",
		Assumptions: []string{"$distinct of a non-array x may be x (the port's documented choice)"},
		Plan: func(tier string, seed uint64) *fw.Plan {
			nRand := int64(20000)
			if tier == "thorough" {
				nRand = 1000000
			}
			return &fw.Plan{N: nEx + nRand + 1,
				Subspaces: []string{fmt.Sprintf("%d (array of length<=3 over 5 values, program shape, supply mode) cases", nEx)},
				Run: func(i int64, r *fw.Rec) {
					if i == nEx+nRand {
						c15Shuffle(r, seed)
						return
					}
					doc := O{}
					var xsV, ysV interface{}
					var k int
					literal := false
					tag := "exhaustive"
					if i < nEx {
						literal = i%2 == 1
						i /= 2
						k = int(i % int64(np))
						i /= int64(np)
						xsV = c15Array(i)
						ysV = c15Array((i*7 + 3) % c15NArr)
					} else {
						rr := prng.New(seed, 0xC15, uint64(i))
						xsV, ysV = c15RandArr(rr), c15RandArr(rr)
						k = rr.Intn(np)
						literal = rr.Intn(3) == 0
						tag = "random"
					}
					tree, shape := c15Program(k, arrExpr(xsV, "xs", doc, literal), arrExpr(ysV, "ys", doc, literal))
					r.Tag("fn:" + shape)
					modelCheck(r, tree, doc, tag, judge.Opts{}, nil)
				}}
		},
	})
}

// c15Shuffle: $shuffle returns a permutation; over 200 runs of a 4-element
// array the results are not all identical.
func c15Shuffle(r *fw.Rec, seed uint64) {
	prog := `$shuffle(xs)`
	in := decodeDoc(`{"xs":[1,"1",{"a":1},[1],2,2]}`)
	r.Begin(prog, `{"xs":[1,"1",{"a":1},[1],2,2]}`)
	r.Tag("shuffle-law")
	e, _ := obs.Compile(prog)
	if e == nil {
		r.Violation("shuffle-law", "$shuffle(xs) does not compile", nil)
		return
	}
	want := obs.Normalize(in.(map[string]interface{})["xs"], nil)
	distinct := map[string]bool{}
	for k := 0; k < 200; k++ {
		r.Evals(1)
		o := obs.Eval(e, in)
		if o.Kind != "value" {
			r.Violation("shuffle-law", "$shuffle failed: "+o.String(), nil)
			return
		}
		got := obs.Normalize(o.Val, nil)
		if !obs.EqualMultiset(got, want) {
			r.Violation("shuffle-law", "$shuffle result is not a permutation of its input: "+obs.ShowNorm(got), nil)
			return
		}
		distinct[obs.ShowNorm(got)] = true
	}
	r.Nontrivial("shuffle-law")
	r.Nontrivial("shuffle-law-2")
	r.Count("shuffle_distinct_orders_seen", int64(len(distinct)))
	if len(distinct) < 2 {
		r.Violation("shuffle-law", "200 shuffles of a 6-element array all produced the same order", nil)
		return
	}
	r.Held()
}
