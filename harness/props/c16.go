package props

import (
	"encoding/base64"
	"fmt"
	"math"
	"strings"
	"unicode"

	"verif/harness/fw"
	"verif/harness/jast"
	"verif/harness/obs"
	"verif/harness/prng"
)

// C16: string functions work on code points. Oracle: reference on []rune.

var c16Alpha = []string{"a", "Z", " ", "\t", "\n", ",", "é", "€", "😀", "́", "ß", "İ", "\ufffd"}
var c16Sub = []string{"a", ",", " ", "é", "😀"}

func enumStr(alpha []string, i int64) string {
	if i == 0 {
		return ""
	}
	i--
	k := int64(len(alpha))
	l := 1
	p := k
	for i >= p {
		i -= p
		p *= k
		l++
	}
	parts := make([]string, l)
	for j := l - 1; j >= 0; j-- {
		parts[j] = alpha[i%k]
		i /= k
	}
	return strings.Join(parts, "")
}

func enumCount(k, maxLen int) int64 {
	n, p := int64(1), int64(1)
	for l := 1; l <= maxLen; l++ {
		p *= int64(k)
		n += p
	}
	return n
}

// ---- reference implementations on runes

func refSubstring(s string, start int, hasLen bool, l int) string {
	r := []rune(s)
	n := len(r)
	if hasLen && l <= 0 {
		return ""
	}
	if start < 0 {
		start += n
		if start < 0 {
			start = 0
		}
	}
	if start >= n {
		return ""
	}
	end := n
	if hasLen && start+l < n {
		end = start + l
	}
	return string(r[start:end])
}

func refPad(s string, w int, chars string) string {
	r := []rune(s)
	target := w
	if target < 0 {
		target = -target
	}
	if len(r) >= target {
		return s
	}
	p := []rune(chars)
	if len(p) == 0 {
		p = []rune(" ")
	}
	fill := make([]rune, target-len(r))
	for i := range fill {
		fill[i] = p[i%len(p)]
	}
	if w < 0 {
		return string(fill) + s
	}
	return s + string(fill)
}

func refIndex(s, c []rune) int {
	for i := 0; i+len(c) <= len(s); i++ {
		ok := true
		for j := range c {
			if s[i+j] != c[j] {
				ok = false
				break
			}
		}
		if ok {
			return i
		}
	}
	return -1
}

func refBefore(s, c string) string {
	r, cc := []rune(s), []rune(c)
	if i := refIndex(r, cc); i >= 0 {
		return string(r[:i])
	}
	return s
}

func refAfter(s, c string) string {
	r, cc := []rune(s), []rune(c)
	if i := refIndex(r, cc); i >= 0 {
		return string(r[i+len(cc):])
	}
	return s
}

func refSplit(s, c string) []string {
	r, cc := []rune(s), []rune(c)
	if len(cc) == 0 {
		out := make([]string, len(r))
		for i, x := range r {
			out[i] = string(x)
		}
		return out
	}
	var out []string
	for {
		i := refIndex(r, cc)
		if i < 0 {
			break
		}
		out = append(out, string(r[:i]))
		r = r[i+len(cc):]
	}
	return append(out, string(r))
}

func refReplace(s, c, rep string, limit int) string {
	r, cc := []rune(s), []rune(c)
	var sb strings.Builder
	n := 0
	for limit < 0 || n < limit {
		i := refIndex(r, cc)
		if i < 0 {
			break
		}
		sb.WriteString(string(r[:i]))
		sb.WriteString(rep)
		r = r[i+len(cc):]
		n++
	}
	sb.WriteString(string(r))
	return sb.String()
}

func refTrim(s string) string {
	f := strings.FieldsFunc(s, func(r rune) bool { return r == ' ' || r == '\t' || r == '\n' || r == '\r' })
	return strings.Join(f, " ")
}

func refCase(s string, upper bool) string {
	r := []rune(s)
	for i, x := range r {
		if upper {
			r[i] = unicode.ToUpper(x)
		} else {
			r[i] = unicode.ToLower(x)
		}
	}
	return string(r)
}

type c16Case struct {
	rooted bool // arguments are evaluated under a context path
	prog string
	doc  O
	want []interface{} // acceptable results (normalised); nil entry = expects an error
	err  bool
	tag  string
}

func q(s string) string { return jast.QuoteStr(s, false) }

func numText(f float64) string { return jast.FormatNum(f) }

// c16LibInts makes arg write small non-negative integers as calls of $length
// and $count (set around the construction of a case; a worker runs its cases
// one after the other).
var c16LibInts bool

// arg renders an argument either as a literal or as an input member.
func (c *c16Case) arg(name string, v interface{}, viaInput bool) string {
	if viaInput {
		c.doc[name] = v
		if c.rooted {
			// under a path the arguments are evaluated against the context
			// item: refer to the input member through the root
			return "$$." + name
		}
		return name
	}
	switch x := v.(type) {
	case string:
		return q(x)
	case float64:
		if c16LibInts && x >= 0 && x <= 8 && x == math.Trunc(x) {
			// the number as a library function hands it out (a Go int)
			if int(x)%2 == 0 {
				return "$length(" + q(strings.Repeat("é", int(x))) + ")"
			}
			return "$count([" + strings.TrimSuffix(strings.Repeat("0,", int(x)), ",") + "])"
		}
		s := numText(x)
		if strings.HasPrefix(s, "-") {
			return "(" + s + ")"
		}
		return s
	}
	return "null"
}

func strsToIface(ss []string) []interface{} {
	out := make([]interface{}, len(ss))
	for i, s := range ss {
		out[i] = s
	}
	return out
}

func intCands(f float64) []int {
	if f == math.Trunc(f) {
		return []int{int(f)}
	}
	return []int{int(math.Floor(f)), int(math.Ceil(f))}
}

func c16Substring(s string, start float64, hasLen bool, l float64, viaInput, ctxForm bool) c16Case {
	c := c16Case{doc: O{}, tag: "substring", rooted: ctxForm}
	var args []string
	if ctxForm {
		c.doc["s"] = s
	} else {
		args = append(args, c.arg("s", s, viaInput))
	}
	args = append(args, c.arg("p1", start, viaInput))
	if hasLen {
		args = append(args, c.arg("p2", l, viaInput))
	}
	c.prog = "$substring(" + strings.Join(args, ", ") + ")"
	if ctxForm {
		c.prog = "s." + c.prog
	}
	for _, st := range intCands(start) {
		if hasLen {
			for _, ln := range intCands(l) {
				c.want = append(c.want, refSubstring(s, st, true, ln))
			}
		} else {
			c.want = append(c.want, refSubstring(s, st, false, 0))
		}
	}
	return c
}

func c16Pad(s string, w float64, chars string, hasChars, viaInput, ctxForm bool) c16Case {
	c := c16Case{doc: O{}, tag: "pad", rooted: ctxForm}
	var args []string
	if ctxForm {
		c.doc["s"] = s
	} else {
		args = append(args, c.arg("s", s, viaInput))
	}
	args = append(args, c.arg("w", w, viaInput))
	if hasChars {
		args = append(args, c.arg("c", chars, viaInput))
	}
	c.prog = "$pad(" + strings.Join(args, ", ") + ")"
	if ctxForm {
		c.prog = "s." + c.prog
	}
	if !hasChars {
		chars = "" // default padding
	}
	for _, wi := range intCands(w) {
		c.want = append(c.want, refPad(s, wi, chars))
	}
	return c
}

// separator functions: kind 0..7
var c16SepKinds = []string{"substringBefore", "substringAfter", "contains", "split", "join-split", "replace", "before-after-law", "split-limit"}

func c16Sep(kind int, s, sep string, lim float64, viaInput, ctxForm bool) c16Case {
	c := c16Case{doc: O{}, tag: c16SepKinds[kind], rooted: ctxForm && kind != 4 && kind != 6}
	sa := c.arg("s", s, viaInput)
	ca := c.arg("c", sep, viaInput)
	ctx := func(fn string, rest ...string) string {
		if ctxForm {
			c.doc["s"] = s
			return "s.$" + fn + "(" + strings.Join(rest, ", ") + ")"
		}
		return "$" + fn + "(" + strings.Join(append([]string{sa}, rest...), ", ") + ")"
	}
	switch kind {
	case 0:
		c.prog = ctx("substringBefore", ca)
		c.want = []interface{}{refBefore(s, sep)}
	case 1:
		c.prog = ctx("substringAfter", ca)
		c.want = []interface{}{refAfter(s, sep)}
	case 2:
		c.prog = ctx("contains", ca)
		c.want = []interface{}{refIndex([]rune(s), []rune(sep)) >= 0}
	case 3:
		c.prog = ctx("split", ca)
		c.want = []interface{}{strsToIface(refSplit(s, sep))}
	case 4:
		// $join($split(s,c),c) = s
		c.prog = "$join($split(" + sa + ", " + ca + "), " + ca + ") = " + sa
		c.want = []interface{}{true}
	case 5:
		if sep == "" {
			c.prog = ctx("replace", ca, q("X"))
			c.err = true
		} else {
			rep := "<" + sep + ">"
			c.prog = ctx("replace", ca, q(rep))
			c.want = []interface{}{refReplace(s, sep, rep, -1)}
		}
	case 6:
		// $substringBefore(s,c) & c & $substringAfter(s,c) = s whenever s contains c
		c.prog = "$contains(" + sa + ", " + ca + ") ? ($substringBefore(" + sa + ", " + ca + ") & " + ca + " & $substringAfter(" + sa + ", " + ca + ") = " + sa + ") : \"absent\""
		if refIndex([]rune(s), []rune(sep)) >= 0 {
			c.want = []interface{}{true}
		} else {
			c.want = []interface{}{"absent"}
		}
	case 7:
		la := c.arg("l", lim, viaInput)
		c.prog = ctx("split", ca, la)
		if lim < 0 {
			c.err = true
			if lim > -1 {
				// -0.5 truncates to 0 in the port: the statement is silent on fractions
				c.err = false
				c.want = []interface{}{strsToIface(nil)}
			}
		} else {
			full := refSplit(s, sep)
			for _, li := range intCands(lim) {
				if li < len(full) {
					c.want = append(c.want, strsToIface(full[:li]))
				} else {
					c.want = append(c.want, strsToIface(full))
				}
			}
		}
	}
	return c
}

func c16Misc(kind int, s string, w float64, viaInput, ctxForm bool) c16Case {
	c := c16Case{doc: O{}}
	if kind >= 4 {
		ctxForm = false
	}
	sa := c.arg("s", s, viaInput)
	call1 := func(fn string) string {
		if ctxForm {
			c.doc["s"] = s
			return "s.$" + fn + "()"
		}
		return "$" + fn + "(" + sa + ")"
	}
	switch kind {
	case 0:
		c.tag, c.prog = "length", call1("length")
		c.want = []interface{}{float64(len([]rune(s)))}
	case 1:
		c.tag, c.prog = "uppercase", call1("uppercase")
		c.want = []interface{}{refCase(s, true)}
	case 2:
		c.tag, c.prog = "lowercase", call1("lowercase")
		c.want = []interface{}{refCase(s, false)}
	case 3:
		c.tag, c.prog = "trim", call1("trim")
		c.want = []interface{}{refTrim(s)}
	case 4:
		c.tag = "pad-length-law"
		wa := c.arg("w", w, viaInput)
		c.prog = "$length($pad(" + sa + ", " + wa + "))"
		for _, wi := range intCands(w) {
			if wi < 0 {
				wi = -wi
			}
			n := len([]rune(s))
			if wi > n {
				n = wi
			}
			c.want = append(c.want, float64(n))
		}
	case 5:
		c.tag = "base64-roundtrip"
		c.prog = "$base64decode($base64encode(" + sa + ")) = " + sa
		c.want = []interface{}{true}
	case 6:
		c.tag = "base64encode"
		c.prog = call1("base64encode")
		c.want = []interface{}{base64.StdEncoding.EncodeToString([]byte(s))}
	case 7:
		c.tag = "url-roundtrip"
		c.prog = "$decodeUrlComponent($encodeUrlComponent(" + sa + ")) = " + sa
		c.want = []interface{}{true}
		if s == "�" {
			c.err = true
			c.want = nil
		}
	case 8:
		c.tag = "join"
		parts := refSplit(s, "")
		c.doc["parts"] = strsToIface(parts)
		wa := c.arg("c", ",", viaInput)
		c.prog = "$join(parts, " + wa + ")"
		if len(parts) == 0 {
			c.prog = "$join([], " + wa + ")"
		}
		c.want = []interface{}{strings.Join(parts, ",")}
	}
	return c
}

func c16Run(r *fw.Rec, c c16Case, wl string) {
	docJSON := genJSON(c.doc)
	r.Begin(c.prog, docJSON)
	r.Tag("fn:"+c.tag, wl)
	r.Nontrivial(c.prog + "\x00" + docJSON)
	o := obs.Run(c.prog, decodeDoc(docJSON))
	r.Outcome(o.Class())
	if c.err {
		if o.Kind != "error" {
			r.Violation("expected-error:"+c.tag, "expected an error, got "+o.String(), nil)
			return
		}
		r.Held()
		return
	}
	if o.Kind == "undefined" {
		// an empty list and 'no value' are identified at whole-result level
		for _, w := range c.want {
			if a, ok := w.([]interface{}); ok && len(a) == 0 {
				r.Held()
				return
			}
		}
	}
	if o.Kind != "value" {
		r.Violation("mismatch:"+c.tag, fmt.Sprintf("got %s, want %s", o.String(), obs.ShowNorm(obs.Normalize(c.want[0], nil))), nil)
		return
	}
	got := obs.Normalize(o.Val, nil)
	for _, w := range c.want {
		if obs.Equal(got, obs.Normalize(w, nil)) {
			r.Held()
			r.Sample(c.tag, map[string]any{"prog": c.prog, "input": docJSON, "result": obs.ShowNorm(got)})
			return
		}
	}
	r.Violation("mismatch:"+c.tag, fmt.Sprintf("got %s, want %s", obs.ShowNorm(got), obs.ShowNorm(obs.Normalize(c.want[0], nil))), nil)
}

func init() {
	fw.Register(&fw.Prop{
		ID: "C16", Title: "String functions work on Unicode code points and satisfy inverse laws",
		Rule: "cases: (a) exhaustive grids: every string of <=2 (quick) / <=3 (thorough) symbols over the 12-symbol alphabet {a Z space tab LF , é € 😀 combining-acute ß İ} x $substring start -8..8 x length absent/-8..8; x $pad width -8..8 x pad strings of <=2 symbols over {a , space é 😀}; x separators of <=2 (quick) / <=3 (thorough) symbols for $substringBefore $substringAfter $contains $split $replace and the laws $join($split(s,c),c)=s and before&c&after=s; " +
			"(b) PRNG-generated strings of <=12 symbols for all of these plus $length $uppercase $lowercase $trim $join, $split with limits (incl. negative and fractional), $length($pad(s,n)) = max(|n|,$length(s)), base64 and URL-component round trips; arguments supplied as literals and as input members, and in the context-defaulting form under a path. " +
			"Oracle: reference implementations on []rune; fractional numeric parameters are accepted if the result matches some integer in [floor, ceil]. non-trivial = string containing a multi-byte character or a separator hit; distinct by (program, input)",
		Assumptions: []string{"fractional start/length/width/limit: the statement is silent, any integer between floor and ceil is accepted", "the URL round trip excludes the lone U+FFFD (rejected by design)"},
		Plan: func(tier string, seed uint64) *fw.Plan {
			sl, cl := 2, 2
			nRand := int64(30000)
			if tier == "thorough" {
				sl, cl = 3, 3
				nRand = 1000000
			}
			nS := enumCount(len(c16Alpha), sl)
			nC := enumCount(len(c16Sub), cl)
			nP := enumCount(len(c16Sub), 2)
			g1 := nS * 17 * 18 // substring
			g2 := nS * 17 * nP // pad
			g3 := nS * nC * 7  // separator functions
			return &fw.Plan{N: g1 + g2 + g3 + nRand,
				Subspaces: []string{fmt.Sprintf("$substring grid: %d", g1), fmt.Sprintf("$pad grid: %d", g2), fmt.Sprintf("separator-function grid: %d", g3)},
				Run: func(i int64, r *fw.Rec) {
					switch {
					case i < g1:
						l := i % 18
						i /= 18
						st := float64(i%17 - 8)
						s := enumStr(c16Alpha, i/17)
						c16Run(r, c16Substring(s, st, l > 0, float64(l-1-8), i%2 == 0, i%5 == 0), "grid")
					case i < g1+g2:
						i -= g1
						p := enumStr(c16Sub, i%nP)
						i /= nP
						w := float64(i%17 - 8)
						s := enumStr(c16Alpha, i/17)
						c16Run(r, c16Pad(s, w, p, true, i%2 == 0, i%5 == 0 && p != ""), "grid")
					case i < g1+g2+g3:
						i -= g1 + g2
						k := int(i % 7)
						i /= 7
						sep := enumStr(c16Sub, i%nC)
						s := enumStr(c16Alpha, i/nC)
						c16Run(r, c16Sep(k, s, sep, 0, i%2 == 0, i%5 == 0 && sep != ""), "grid")
					default:
						rr := prng.New(seed, 0xC16, uint64(i))
						n := rr.Intn(13)
						var sb strings.Builder
						for k := 0; k < n; k++ {
							sb.WriteString(c16Alpha[rr.Intn(len(c16Alpha))])
						}
						s := sb.String()
						num := func() float64 {
							v := float64(rr.Range(-8, 8))
							if rr.Intn(10) == 0 {
								v += 0.5
							}
							return v
						}
						sep := enumStr(c16Sub, int64(rr.Intn(int(enumCount(len(c16Sub), 3)))))
						via, ctx := rr.Bool(), rr.Intn(4) == 0
						c16LibInts = !via && rr.Intn(3) == 0
						var c c16Case
						switch rr.Intn(5) {
						case 0:
							c = c16Substring(s, num(), rr.Bool(), num(), via, ctx)
						case 1:
							hp := rr.Bool()
							c = c16Pad(s, num(), sep, hp, via, ctx && (!hp || sep != ""))
						case 2:
							c = c16Sep(rr.Intn(8), s, sep, num(), via, ctx && sep != "")
						default:
							c = c16Misc(rr.Intn(9), s, num(), via, ctx)
						}
						c16LibInts = false
						c16Run(r, c, "random")
					}
				}}
		},
	})
}
