package props

import (
	"fmt"

	"verif/harness/fw"
	"verif/harness/gen"
	"verif/harness/jast"
	"verif/harness/prng"
)

// C02: predicates.

func (g *pathGen) predExpr(d int) jast.Node {
	r := g.r
	num := func() jast.Node {
		v := float64(r.Range(-7, 7))
		if r.Intn(4) == 0 {
			v += 0.5
		}
		return &jast.Num{V: v}
	}
	switch r.Intn(19) {
	case 16, 17:
		// positions computed by built-ins that return Go integers
		g.tags["pred:integer-valued-function"] = true
		cnt := &jast.Call{Fn: &jast.Var{Name: "count"}, Args: []jast.Node{&jast.Path{Steps: []jast.Node{&jast.Var{Name: "$"}, &jast.Name{V: "idx"}}}}}
		switch r.Intn(4) {
		case 0:
			return &jast.Call{Fn: &jast.Var{Name: "length"}, Args: []jast.Node{&jast.Str{V: r.Pick("", "a", "ab", "abc")}}}
		case 1:
			return &jast.Array{Items: []jast.Node{cnt, &jast.Num{V: 0}}}
		case 2:
			return &jast.Bin{Op: "-", L: cnt, R: &jast.Num{V: float64(r.Range(0, 3))}}
		}
		return cnt
	case 18:
		g.tags["pred:integer-valued-function"] = true
		return &jast.Call{Fn: &jast.Var{Name: "length"}, Args: []jast.Node{&jast.Path{Steps: []jast.Node{&jast.Var{Name: "$"}, &jast.Name{V: "word"}}}}}
	case 0, 1:
		g.tags["pred:number"] = true
		return num()
	case 2:
		g.tags["pred:computed-number"] = true
		return &jast.Bin{Op: r.Pick("+", "-", "*"), L: num(), R: &jast.Num{V: float64(r.Range(0, 2))}}
	case 3:
		g.tags["pred:number-from-doc"] = true
		return &jast.Path{Steps: []jast.Node{&jast.Var{Name: "$"}, &jast.Name{V: r.Pick("n", "lim", "nothing")}}}
	case 4:
		g.tags["pred:number-array"] = true
		n := r.Intn(4)
		a := &jast.Array{}
		for i := 0; i < n; i++ {
			a.Items = append(a.Items, num())
		}
		return a
	case 5:
		g.tags["pred:index-array-from-doc"] = true
		return &jast.Path{Steps: []jast.Node{&jast.Var{Name: "$"}, &jast.Name{V: "idx"}}}
	case 6:
		g.tags["pred:mixed-array"] = true
		return &jast.Array{Items: []jast.Node{num(), lit(r.Pick("a", ""))}}
	case 7:
		g.tags["pred:string"] = true
		return &jast.Str{V: r.Pick("", "a", "0")}
	case 8:
		g.tags["pred:object"] = true
		// an object is true iff it has a member, whatever the members' values are
		return lit([]interface{}{O{}, O{"a": 1.0}, O{"zero": 0.0}, O{"e": "", "f": false}, O{"n": A{}}}[r.Intn(5)])
	case 9:
		g.tags["pred:missing"] = true
		return &jast.Name{V: "nothing"}
	case 10:
		g.tags["pred:boolean"] = true
		return &jast.Bool{V: r.Bool()}
	case 11:
		g.tags["pred:and-or"] = true
		if d < 2 {
			return &jast.Bin{Op: r.Pick("and", "or"), L: g.predExpr(d + 1), R: g.predExpr(d + 1)}
		}
		fallthrough
	case 12:
		g.tags["pred:compare-root"] = true
		return &jast.Bin{Op: r.Pick(">", "<=", "="), L: g.name(), R: &jast.Path{Steps: []jast.Node{&jast.Var{Name: "$"}, &jast.Name{V: "lim"}}}}
	case 13:
		g.tags["pred:member-exists"] = true
		return g.name()
	}
	g.tags["pred:compare"] = true
	var rhs jast.Node
	switch r.Intn(3) {
	case 0:
		rhs = &jast.Num{V: float64(r.Range(0, 3))}
	case 1:
		rhs = &jast.Str{V: r.Pick("a", "b", "1", "")}
	default:
		rhs = &jast.Bool{V: true}
	}
	return &jast.Bin{Op: r.Pick("=", "!=", "<", ">", ">=", "="), L: g.name(), R: rhs}
}

func (g *pathGen) withPreds(s jast.Node, d int) jast.Node {
	n := 1
	switch g.r.Intn(6) {
	case 0:
		n = 2
	case 1:
		n = 3
	}
	p := &jast.Pred{X: s}
	for i := 0; i < n; i++ {
		p.Filters = append(p.Filters, g.predExpr(d))
	}
	g.tags[fmt.Sprintf("stacked:%d", n)] = true
	return p
}

// ---- exhaustive grid

var c02Pos []float64

func init() {
	for p := -7.0; p <= 7.0; p += 0.5 {
		c02Pos = append(c02Pos, p)
	}
}

var c02M = []float64{0, 1, -1, 2.5, 4, -6}

func c02Items(l int) A {
	a := A{}
	for i := 0; i < l; i++ {
		a = append(a, float64((i+1)*10))
	}
	return a
}

// predicate forms: literal n, $$.n, [n], [n,n], [n,m] for 6 m, $count(...) = n  => 11 forms
func c02PredForm(form int, n float64) jast.Node {
	switch form {
	case 0:
		return &jast.Num{V: n}
	case 1:
		return &jast.Path{Steps: []jast.Node{&jast.Var{Name: "$"}, &jast.Name{V: "n"}}}
	case 2:
		return &jast.Array{Items: []jast.Node{&jast.Num{V: n}}}
	case 3:
		return &jast.Array{Items: []jast.Node{&jast.Num{V: n}, &jast.Num{V: n}}}
	case 10:
		// the position as a Go integer: $count of an input array of |n| members
		if n != float64(int(n)) {
			return &jast.Num{V: n}
		}
		cnt := &jast.Call{Fn: &jast.Var{Name: "count"}, Args: []jast.Node{&jast.Path{Steps: []jast.Node{&jast.Var{Name: "$"}, &jast.Name{V: "cnt"}}}}}
		if n < 0 {
			return &jast.Bin{Op: "*", L: cnt, R: &jast.Num{V: -1}}
		}
		return cnt
	}
	return &jast.Array{Items: []jast.Node{&jast.Num{V: n}, &jast.Num{V: c02M[form-4]}}}
}

// head shapes: x[p], (x)[p], $v[p], $.x[p], y.x[p]
func c02Head(shape int, filters []jast.Node) jast.Node {
	x := &jast.Name{V: "x"}
	switch shape {
	case 0:
		return &jast.Pred{X: x, Filters: filters}
	case 1:
		return &jast.Pred{X: &jast.Block{Exprs: []jast.Node{&jast.Path{Steps: []jast.Node{x}}}}, Filters: filters}
	case 2:
		return &jast.Block{Exprs: []jast.Node{&jast.Assign{Name: "v", Val: &jast.Path{Steps: []jast.Node{x}}}, &jast.Pred{X: &jast.Var{Name: "v"}, Filters: filters}}}
	case 3:
		return &jast.Path{Steps: []jast.Node{&jast.Var{Name: ""}, &jast.Pred{X: x, Filters: filters}}}
	}
	return &jast.Path{Steps: []jast.Node{&jast.Name{V: "y"}, &jast.Pred{X: x, Filters: filters}}}
}

const (
	c02Forms  = 11
	c02Shapes = 5
	c02Lens   = 6
)

func c02Grid1() int64 { return int64(c02Lens * len(c02Pos) * c02Forms * c02Shapes) }

var c02Second = []jast.Node{&jast.Num{V: 0}, &jast.Num{V: -1}, &jast.Bool{V: true}}

func c02Grid2() int64 { return int64(c02Lens*len(c02Pos)*c02Forms*2) * int64(len(c02Second)) }

func c02Case(i int64) (jast.Node, O, string) {
	second := -1
	shapes := []int{0, 1, 2, 3, 4}
	if i >= c02Grid1() {
		i -= c02Grid1()
		second = int(i % int64(len(c02Second)))
		i /= int64(len(c02Second))
		shapes = []int{0, 2} // name head and variable head
	}
	shape := shapes[i%int64(len(shapes))]
	i /= int64(len(shapes))
	form := int(i % c02Forms)
	i /= c02Forms
	pos := c02Pos[i%int64(len(c02Pos))]
	i /= int64(len(c02Pos))
	l := int(i % c02Lens)
	filters := []jast.Node{c02PredForm(form, pos)}
	if second >= 0 {
		filters = append(filters, c02Second[second])
	}
	items := c02Items(l)
	doc := O{"x": items, "n": pos, "y": A{O{"x": items}, O{"x": c02Items((l + 2) % c02Lens)}}}
	if pos == float64(int(pos)) {
		cnt := A{}
		for k := 0; k < int(pos) || k < -int(pos); k++ {
			cnt = append(cnt, true)
		}
		doc["cnt"] = cnt
	}
	if second >= 0 {
		// make the survivors of the first predicate interesting: items that are arrays
		nested := A{}
		for k := range items {
			nested = append(nested, A{float64(k + 1), float64(k + 2)})
		}
		doc["x"] = nested
	}
	tag := "grid1"
	if second >= 0 {
		tag = "grid2-stacked"
	}
	return c02Head(shape, filters), doc, tag
}

// ---- grid 3: the predicate's value differs per item (a member of the item, or the item itself)

var c02Vals = []interface{}{-1.0, 0.0, 1.0, 2.0, 1.5, true, false, A{0.0, 2.0}, nil, "s"}

func c02Grid3() int64 { return int64(10+100+1000+10000) * 4 }

func c02Case3(i int64) (jast.Node, O, string) {
	shape := int(i % 4)
	i /= 4
	l := 1
	for n := int64(10); i >= n; n *= 10 {
		i -= n
		l++
	}
	items, raw := A{}, A{}
	for k := 0; k < l; k++ {
		v := c02Vals[i%10]
		i /= 10
		it := O{"id": float64(k)}
		if v != nil {
			it["pos"] = v
			raw = append(raw, v)
		}
		items = append(items, it)
	}
	pos := []jast.Node{&jast.Name{V: "pos"}}
	switch shape {
	case 0:
		return c02Head(0, pos), O{"x": items}, "grid3-member"
	case 1:
		return c02Head(1, pos), O{"x": items}, "grid3-member"
	case 2:
		return c02Head(2, pos), O{"x": items}, "grid3-member"
	}
	return c02Head(0, []jast.Node{&jast.Var{Name: ""}}), O{"x": raw}, "grid3-self"
}

// ---- grid 4: a variable head with two stacked predicates, followed by a
// further step, evaluated when the input itself is an array: the head (and its
// predicates) must be evaluated once, not once per member of the input
var c02Roots = []A{
	{1.0, 2.0, 3.0},
	{A{1.0, 2.0}, A{3.0, 4.0}},
	{O{"x": A{5.0, 6.0}}, O{"x": A{7.0}}, A{O{"x": 8.0}}},
}

func c02Grid4() int64 { return int64(len(c02Roots)) * 4 * 9 * 3 }

func c02Case4(i int64) (jast.Node, interface{}, string) {
	tail := int(i % 3)
	i /= 3
	p2 := []float64{0, 1, -1}[i%3]
	i /= 3
	p1 := []float64{0, 1, -1}[i%3]
	i /= 3
	head := int(i % 4)
	i /= 4
	root := c02Roots[i%int64(len(c02Roots))]
	var h jast.Node
	switch head {
	case 0:
		h = &jast.Var{Name: ""}
	case 1:
		h = &jast.Var{Name: "$"}
	default:
		h = &jast.Var{Name: "v"}
	}
	var e jast.Node = &jast.Pred{X: &jast.Pred{X: h, Filters: []jast.Node{&jast.Num{V: p1}}}, Filters: []jast.Node{&jast.Num{V: p2}}}
	switch tail {
	case 1:
		e = &jast.Path{Steps: []jast.Node{e, &jast.Var{Name: ""}}}
	case 2:
		e = &jast.Path{Steps: []jast.Node{e, &jast.Name{V: "x"}}}
	}
	if head >= 2 {
		var val jast.Node = lit(A{A{5.0, 6.0}, A{O{"x": 1.0}, O{"x": 2.0}}})
		if head == 3 {
			val = &jast.Var{Name: ""}
		}
		e = &jast.Block{Exprs: []jast.Node{&jast.Assign{Name: "v", Val: val}, e}}
	}
	return e, root, "grid4-anchored-variable-head"
}

func init() {
	fw.Register(&fw.Prop{
		ID: "C02", Title: "Predicates filter by truth value or select by position, per context item",
		Rule: "cases: (a) exhaustive grid: array lengths 0..5 x positions -7..7 step 0.5 (29) x 11 predicate forms (literal n, $$.n, [n], [n,n], [n,m] for 6 m, and n as the Go integer returned by $count) x 5 head shapes (x[p], (x)[p], $v[p], $.x[p], y.x[p] with x nested in a 2-element y); " +
			"(b) the same grid with a second stacked predicate [0], [-1], [true] on a name head and on a variable head over arrays of arrays (the two stacking rules); " +
			"(b2) per-item predicate values: arrays of 1..4 objects whose member pos is each of -1,0,1,2,1.5,true,false,[0,2],absent,'s' (all 11110 combinations) under x[pos], (x)[pos], $v[pos], and the raw values under x[$]; " +
			"(b3) a variable head ($, $$, $v) with two stacked positional predicates, alone or followed by .$ or .x, evaluated on inputs that are themselves arrays (324 cases): the head is evaluated once, not per member; " +
			"(c) PRNG-generated paths as in C01 with 1..3 stacked predicates on any step or on the parenthesised path: comparisons on members, against root members, and/or, numbers (negative, fractional, out of range, computed, from the document), number arrays (literal and $$.idx), mixed arrays, strings, objects, missing, booleans. " +
			"Oracle: reference model, exact; empty array identified with 'no value' at whole-result level. non-trivial = every case (each has a predicate); distinct by (program, input)",
		Assumptions: []string{"JSON null inside documents is excluded", "stacked predicates: merged on field-name steps, nested on other heads (as the property's quantifier prescribes)"},
		Plan: func(tier string, seed uint64) *fw.Plan {
			nRand := int64(30000)
			n1, n2, n3 := c02Grid1(), c02Grid2(), c02Grid3()
			n4 := c02Grid4()
			n5 := c02Grid5()
			if tier == "thorough" {
				nRand = 1500000
			}
			return &fw.Plan{N: n1 + n2 + n3 + n4 + n5 + nRand,
				Subspaces: []string{fmt.Sprintf("grid of %d (length, position, predicate form, head shape) cases", n1), fmt.Sprintf("stacked grid of %d cases", n2), fmt.Sprintf("per-item predicate value grid of %d cases", n3)},
				Run: func(i int64, r *fw.Rec) {
					if i < n1+n2 {
						tree, doc, tag := c02Case(i)
						runPathCase(r, tree, doc, tag, false, &jast.Style{})
						return
					}
					if i < n1+n2+n3 {
						tree, doc, tag := c02Case3(i - n1 - n2)
						runPathCase(r, tree, doc, tag, false, &jast.Style{})
						return
					}
					if i < n1+n2+n3+n4 {
						tree, doc, tag := c02Case4(i - n1 - n2 - n3)
						runPathCase(r, tree, doc, tag, false, &jast.Style{})
						return
					}
					if i < n1+n2+n3+n4+n5 {
						tree, doc, tag := c02Case5(i - n1 - n2 - n3 - n4)
						runPathCase(r, tree, doc, tag, false, &jast.Style{})
						return
					}
					i -= n4 + n5
					rr := prng.New(seed, 0xC02, uint64(i))
					g := &pathGen{r: rr, preds: true, tags: map[string]bool{}}
					tree := g.program()
					one := g.usesWild
					doc := gen.Doc(rr, gen.DocOpts{OneMember: one, MaxDepth: 4})
					if m, ok := doc.(map[string]interface{}); ok && !one {
						m["idx"] = []interface{}{A{0.0, 2.0}, A{1.0}, A{-1.0, 0.0}, A{0.0, 0.0}, A{}}[rr.Intn(5)]
						m["lim"] = float64(rr.Range(0, 3))
						m["n"] = float64(rr.Range(-2, 3))
						m["word"] = rr.Pick("", "a", "ab")
					}
					if !g.tags["stacked:1"] && !g.tags["stacked:2"] && !g.tags["stacked:3"] {
						// make sure every case has a predicate
						tree = &jast.Pred{X: &jast.Block{Exprs: []jast.Node{tree}}, Filters: []jast.Node{g.predExpr(0)}}
					}
					for t := range g.tags {
						r.Tag(t)
					}
					st := jast.Style{Space: rr.Intn(3), Rnd: rr.Intn}
					runPathCase(r, tree, doc, "random", false, &st)
				}}
		},
	})
}
