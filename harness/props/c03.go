package props

import (
	"fmt"
	"math"
	"strings"

	"verif/harness/fw"
	"verif/harness/gen"
	"verif/harness/jast"
	"verif/harness/judge"
	"verif/harness/obs"
	"verif/harness/prng"
	"verif/harness/refeval"
)

// C03: operators. Oracle = the reference model's operator table.

type opKind struct {
	Name string
	Lits []jast.Node
}

func lit(v interface{}) jast.Node {
	switch x := v.(type) {
	case nil:
		return &jast.Null{}
	case bool:
		return &jast.Bool{V: x}
	case float64:
		return &jast.Num{V: x}
	case int:
		return &jast.Num{V: float64(x)}
	case string:
		return &jast.Str{V: x}
	case []interface{}:
		a := &jast.Array{}
		for _, e := range x {
			a.Items = append(a.Items, lit(e))
		}
		return a
	case map[string]interface{}:
		o := &jast.Object{}
		for _, k := range sortedKeysOf(x) {
			o.Pairs = append(o.Pairs, [2]jast.Node{&jast.Str{V: k}, lit(x[k])})
		}
		return o
	}
	panic(fmt.Sprintf("lit: %T", v))
}

func sortedKeysOf(m map[string]interface{}) []string {
	ks := make([]string, 0, len(m))
	for k := range m {
		ks = append(ks, k)
	}
	for i := 1; i < len(ks); i++ {
		for j := i; j > 0 && ks[j] < ks[j-1]; j-- {
			ks[j], ks[j-1] = ks[j-1], ks[j]
		}
	}
	return ks
}

type A = []interface{}
type O = map[string]interface{}

// operand kinds with three representative values each
var c03Kinds = []struct {
	Name string
	Vals []interface{} // plain values; functions and missing are handled specially
}{
	{"number", []interface{}{0.0, 2.5, -3.0}},
	{"string", []interface{}{"", "a", "10"}},
	{"boolean", []interface{}{true, false, true}},
	{"null", []interface{}{nil, nil, nil}},
	{"array", []interface{}{A{}, A{nil}, A{1.0, "<a&b>"}}},
	{"object", []interface{}{O{}, O{"a": nil}, O{"a": 1.0, "b": "<x>"}}},
	{"function", []interface{}{"fn0", "fn1", "fn2"}},
	{"missing", []interface{}{"miss", "miss", "miss"}},
}

var c03Ops = []string{"+", "-", "*", "/", "%", "=", "!=", "<", "<=", ">", ">=", "in", "and", "or", "&", "..", "neg", "?:"}

var c03Fns = []jast.Node{&jast.Var{Name: "sum"}, &jast.Lambda{Params: []string{"x"}, Body: &jast.Var{Name: "x"}}, &jast.Var{Name: "count"}}

// operand builds the expression for kind k, value index vi, supplied either as
// a literal or through the input document/bindings (name).
func c03Operand(k, vi int, viaInput bool, name string, doc O, binds *[]jast.Node) jast.Node {
	kind := c03Kinds[k]
	switch kind.Name {
	case "function":
		if viaInput {
			*binds = append(*binds, &jast.Assign{Name: "f" + name, Val: c03Fns[vi]})
			return &jast.Var{Name: "f" + name}
		}
		return c03Fns[vi]
	case "missing":
		if viaInput {
			return &jast.Name{V: "nothing_" + name}
		}
		return &jast.Var{Name: "undefined_" + name}
	}
	v := kind.Vals[vi]
	if viaInput {
		if v == nil {
			// JSON null inside input documents is outside the quantifier:
			// supply it through a binding instead
			*binds = append(*binds, &jast.Assign{Name: "n" + name, Val: &jast.Null{}})
			return &jast.Var{Name: "n" + name}
		}
		doc[name] = v
		return &jast.Name{V: name}
	}
	return lit(v)
}

func c03Table(i int64) (jast.Node, O, string) {
	// decode i -> (op, kl, kr, vl, vr, mode)
	nk := int64(len(c03Kinds))
	mode := i % 4 // 0 both literal, 1 both through the input, 2 / 3 one of each
	i /= 4
	vr := int(i % 3)
	i /= 3
	vl := int(i % 3)
	i /= 3
	kr := int(i % nk)
	i /= nk
	kl := int(i % nk)
	i /= nk
	op := c03Ops[i%int64(len(c03Ops))]
	doc := O{}
	var binds []jast.Node
	l := c03Operand(kl, vl, mode == 1 || mode == 2, "l", doc, &binds)
	r := c03Operand(kr, vr, mode == 1 || mode == 3, "r", doc, &binds)
	var e jast.Node
	switch op {
	case "..":
		e = &jast.Array{Items: []jast.Node{&jast.Range{L: l, R: r}}}
	case "neg":
		e = &jast.Neg{X: l}
	case "?:":
		boom := &jast.Call{Fn: &jast.Var{Name: "error"}, Args: []jast.Node{&jast.Str{V: "boom"}}}
		if vr%2 == 0 {
			// the branch not chosen must not be evaluated
			e = &jast.Array{Items: []jast.Node{
				&jast.Cond{If: l, Then: &jast.Str{V: "T"}, Else: &jast.Cond{If: l, Then: boom, Else: &jast.Str{V: "F"}}},
				&jast.Cond{If: l, Then: &jast.Str{V: "T2"}},
			}}
		} else {
			e = &jast.Cond{If: l, Then: &jast.Cond{If: l, Then: r, Else: boom}, Else: &jast.Cond{If: l, Then: boom, Else: r}}
		}
	default:
		e = &jast.Bin{Op: op, L: l, R: r}
	}
	if len(binds) > 0 {
		e = &jast.Block{Exprs: append(binds, e)}
	}
	return e, doc, fmt.Sprintf("table:%s:%s:%s", op, c03Kinds[kl].Name, c03Kinds[kr].Name)
}

var c03NumPool = []float64{0, math.Copysign(0, -1), 1, -1, 2, 3, 7, 10, 0.1, 0.2, 1.0 / 3, 2.5, -2.5, 100, 1e21, 9007199254740992, 9007199254740993, 1e308, -1e308, 5e-324, 1e-7, 123456.789, 4294967296, -7, 0.5}
var c03StrPool = []string{"", "a", "b", "A", "ab", "10", "9", "1e3", "é", "z", "😀", "￿", "a b", "true", "null", "-1", " "}

type c03Gen struct {
	r   *prng.R
	doc O
	n   int
}

func (g *c03Gen) numLeaf() jast.Node {
	v := c03NumPool[g.r.Intn(len(c03NumPool))]
	if g.r.Intn(3) == 0 {
		g.n++
		nm := fmt.Sprintf("n%d", g.n)
		g.doc[nm] = v
		return &jast.Name{V: nm}
	}
	return &jast.Num{V: v}
}

func (g *c03Gen) strLeaf() jast.Node {
	v := c03StrPool[g.r.Intn(len(c03StrPool))]
	if g.r.Intn(3) == 0 {
		g.n++
		nm := fmt.Sprintf("s%d", g.n)
		g.doc[nm] = v
		return &jast.Name{V: nm}
	}
	return &jast.Str{V: v}
}

func (g *c03Gen) anyLeaf() jast.Node {
	r := g.r
	switch r.Intn(10) {
	case 0, 1, 2:
		return g.numLeaf()
	case 3, 4:
		return g.strLeaf()
	case 5:
		return &jast.Bool{V: r.Bool()}
	case 6:
		return &jast.Null{}
	case 7:
		return &jast.Name{V: "nothing"}
	case 8:
		arrs := []interface{}{A{}, A{1.0}, A{1.0, 2.0}, A{"a", A{1.0}}, A{nil}}
		v := arrs[r.Intn(len(arrs))]
		if r.Intn(2) == 0 {
			if a, ok := v.(A); ok && len(a) > 0 && a[0] != nil {
				g.n++
				nm := fmt.Sprintf("a%d", g.n)
				g.doc[nm] = v
				return &jast.Name{V: nm}
			}
		}
		return lit(v)
	}
	objs := []interface{}{O{}, O{"a": 1.0}, O{"a": 1.0, "b": A{1.0}}, O{"a": "1"}}
	v := objs[r.Intn(len(objs))]
	if r.Intn(2) == 0 {
		g.n++
		nm := fmt.Sprintf("o%d", g.n)
		g.doc[nm] = v
		return &jast.Name{V: nm}
	}
	return lit(v)
}

// castLeaf: a value in a boolean position that is not a boolean: arrays (nested
// up to three deep) of falsy and truthy members, cast by "some member is truthy"
func (g *c03Gen) castLeaf() jast.Node {
	r := g.r
	var build func(d int) interface{}
	build = func(d int) interface{} {
		if d >= 3 || r.Intn(3) == 0 {
			return []interface{}{0.0, "", false, 0.0, "", 1.0, "a", true, O{}, O{"a": 0.0}}[r.Intn(10)]
		}
		n := r.Intn(4)
		a := make(A, n)
		for i := range a {
			a[i] = build(d + 1)
		}
		return a
	}
	v := build(0)
	if _, isArr := v.(A); isArr && r.Bool() {
		g.n++
		nm := fmt.Sprintf("c%d", g.n)
		g.doc[nm] = v
		return &jast.Name{V: nm}
	}
	return lit(v)
}

// expr generates a type-directed operator expression of the wanted kind
// ("num", "str", "bool", "any").
func (g *c03Gen) expr(want string, d int) jast.Node {
	r := g.r
	if d <= 0 || r.Intn(5) == 0 {
		switch want {
		case "num":
			return g.numLeaf()
		case "str":
			return g.strLeaf()
		case "bool":
			if r.Intn(3) == 0 {
				return g.castLeaf()
			}
			return &jast.Bool{V: r.Bool()}
		}
		return g.anyLeaf()
	}
	// occasionally an ill-typed operand
	sub := func(w string) jast.Node {
		if r.Intn(12) == 0 {
			return g.expr("any", d-1)
		}
		return g.expr(w, d-1)
	}
	switch want {
	case "num":
		switch r.Intn(8) {
		case 0:
			return &jast.Neg{X: sub("num")}
		case 1:
			return &jast.Cond{If: sub("bool"), Then: sub("num"), Else: sub("num")}
		}
		return &jast.Bin{Op: r.Pick("+", "-", "*", "/", "%", "+", "-", "*"), L: sub("num"), R: sub("num")}
	case "str":
		if r.Intn(6) == 0 {
			return &jast.Cond{If: sub("bool"), Then: sub("str"), Else: sub("str")}
		}
		return &jast.Bin{Op: "&", L: sub(r.Pick("str", "num", "any")), R: sub(r.Pick("str", "str", "bool", "any"))}
	case "bool":
		switch r.Intn(6) {
		case 0:
			return &jast.Bin{Op: r.Pick("and", "or"), L: sub(r.Pick("bool", "any")), R: sub(r.Pick("bool", "any"))}
		case 1:
			return &jast.Bin{Op: r.Pick("<", "<=", ">", ">="), L: sub("str"), R: sub("str")}
		case 2:
			return &jast.Bin{Op: r.Pick("=", "!="), L: sub("any"), R: sub("any")}
		case 3:
			items := &jast.Array{}
			n := r.Intn(4)
			for i := 0; i < n; i++ {
				items.Items = append(items.Items, sub("any"))
			}
			return &jast.Bin{Op: "in", L: sub("any"), R: items}
		}
		return &jast.Bin{Op: r.Pick("<", "<=", ">", ">=", "=", "!="), L: sub("num"), R: sub("num")}
	}
	switch r.Intn(4) {
	case 0:
		return g.expr("num", d)
	case 1:
		return g.expr("str", d)
	case 2:
		return g.expr("bool", d)
	}
	// ranges
	lo := float64(r.Range(-3, 6))
	hi := lo + float64(r.Range(-2, 8))
	var l, h jast.Node = &jast.Num{V: lo}, &jast.Num{V: hi}
	if r.Intn(6) == 0 {
		l = sub("num")
	}
	if r.Intn(6) == 0 {
		h = sub("num")
	}
	return &jast.Array{Items: []jast.Node{&jast.Range{L: l, R: h}}}
}

var c03Probes = []struct {
	prog string
	tree jast.Node
}{
	{"range just over the limit", &jast.Array{Items: []jast.Node{&jast.Range{L: &jast.Num{V: 1}, R: &jast.Num{V: 10000001}}}}},
	{"large range counted", &jast.Call{Fn: &jast.Var{Name: "count"}, Args: []jast.Node{&jast.Array{Items: []jast.Node{&jast.Range{L: &jast.Num{V: 1}, R: &jast.Num{V: 100000}}}}}}},
	{"range with huge bounds", &jast.Array{Items: []jast.Node{&jast.Range{L: &jast.Num{V: -1e15}, R: &jast.Num{V: 1e15}}}}},
	{"range at the limit+1 from zero", &jast.Array{Items: []jast.Node{&jast.Range{L: &jast.Num{V: 0}, R: &jast.Num{V: 10000000}}}}},
	{"negative range bounds", &jast.Array{Items: []jast.Node{&jast.Range{L: &jast.Num{V: -3}, R: &jast.Num{V: -1}}}}},
	// the string form of a function is the empty string, also when the function
	// went through a library function (and is held by value)
	{"function held by value & string", &jast.Bin{Op: "&", L: c03ByValueFn("distinct"), R: &jast.Str{V: "x"}}},
	{"string & function held by value", &jast.Bin{Op: "&", L: &jast.Str{V: "x"}, R: c03ByValueFn("reverse")}},
	{"function held by value & itself", &jast.Bin{Op: "&", L: c03ByValueFn("sort"), R: c03ByValueFn("distinct")}},
	{"array holding a function by value & string", &jast.Bin{Op: "&", L: &jast.Array{Items: []jast.Node{c03ByValueFn("distinct")}}, R: &jast.Str{V: "x"}}},
	{"function held by value in a boolean position", &jast.Bin{Op: "and", L: c03ByValueFn("distinct"), R: &jast.Bool{V: true}}},
	{"negated function held by value", &jast.Neg{X: c03ByValueFn("distinct")}},
}

// c03ByValueFn: a function that a library function has handed back; the
// library wraps a single value into an array after dereferencing it, so such a
// function is held by value ($single($sum, function($f){true}), $filter(..)[0],
// $reduce($sum, function($a,$b){$b}))
func c03ByValueFn(fn string) jast.Node {
	always := &jast.Lambda{Params: []string{"f"}, Body: &jast.Bool{V: true}}
	switch fn {
	case "distinct":
		return &jast.Call{Fn: &jast.Var{Name: "single"}, Args: []jast.Node{&jast.Var{Name: "sum"}, always}}
	case "reverse":
		return &jast.Pred{X: &jast.Call{Fn: &jast.Var{Name: "filter"}, Args: []jast.Node{&jast.Var{Name: "count"}, always}}, Filters: []jast.Node{&jast.Num{V: 0}}}
	}
	return &jast.Call{Fn: &jast.Var{Name: "reduce"}, Args: []jast.Node{&jast.Var{Name: "sum"}, &jast.Lambda{Params: []string{"a", "b"}, Body: &jast.Var{Name: "b"}}}}
}

func init() {
	nTable := int64(len(c03Ops)) * 8 * 8 * 9 * 4
	fw.Register(&fw.Prop{
		ID: "C03", Title: "Operators compute their defined results",
		Rule: "cases: (a) exhaustive operator table: 18 operators (+ - * / % = != < <= > >= in and or & .. unary- ?:) x 8 x 8 operand kinds (number,string,boolean,null,array,object,function,missing) x 3 x 3 representative values x 4 supply modes (both literals / both input members or bindings / one of each); " +
			"(b) fixed probes of the range limits; (c) PRNG-generated type-directed nested operator expressions (depth<=4, 1 in 12 operands deliberately ill-typed) over a number pool with 0,-0,fractions,2^53,1e308,5e-324 and a string pool with empty, numeric-looking, non-ASCII and astral strings, operands as literals or input members. " +
			"Oracle: reference model table (value exact; error by EvalError.Type). non-trivial = every case (each has at least one operator); distinct by (program, input)",
		Assumptions: []string{"JSON null is supplied as a literal or binding, never inside the input document (excluded by the property)", "numbers compare by float64 value; -0 equals 0"},
		Plan: func(tier string, seed uint64) *fw.Plan {
			nRand := int64(30000)
			if tier == "thorough" {
				nRand = 2000000
			}
			np := int64(len(c03Probes))
			return &fw.Plan{N: nTable + np + nRand + 1,
				Subspaces: []string{fmt.Sprintf("operator table: all %d (operator, lhs kind, rhs kind, lhs value, rhs value, supply mode) combinations", nTable)},
				Run: func(i int64, r *fw.Rec) {
					if i == nTable+np+nRand {
						c03LargestRange(r)
						return
					}
					var tree jast.Node
					var doc O
					var tag string
					switch {
					case i < nTable:
						tree, doc, tag = c03Table(i)
					case i < nTable+np:
						tree, doc, tag = c03Probes[i-nTable].tree, O{}, "probe"
					default:
						rr := prng.New(seed, 0xC03, uint64(i))
						g := &c03Gen{r: rr, doc: O{}}
						tree = g.expr(rr.Pick("num", "str", "bool", "any"), rr.Range(1, 4))
						doc, tag = g.doc, "random"
					}
					modelCheck(r, tree, doc, tag, judge.Opts{}, nil)
				}}
		},
	})
}

// modelCheck is the shared driver of the model-based properties: print the
// tree, run the port, run the reference model, compare.
func modelCheck(r *fw.Rec, tree jast.Node, doc interface{}, tag string, op judge.Opts, st *jast.Style) (obs.Outcome, bool) {
	tree = jast.Normalize(tree)
	style := jast.Style{Space: 1}
	if st != nil {
		style = *st
	}
	prog := jast.Print(tree, style)
	docJSON := gen.JSON(doc)
	r.Begin(prog, docJSON)
	r.Tag(tag)
	r.Nontrivial(prog + "\x00" + docJSON)
	// the model runs first: cases it declares outside the workload's size
	// bounds are not handed to the port at all
	ev := &refeval.Evaluator{Max: 2000000, MaxRange: 20000}
	if tag == "probe" {
		ev.MaxRange = 0
	}
	mv, merr := ev.Run(tree, decodeDoc(docJSON), nil)
	if merr != nil && merr.Class == "unsupported" && len(merr.Msg) >= 10 && merr.Msg[:10] == "size-bound" {
		r.Count("skipped_outside_size_bounds", 1)
		return obs.Outcome{Kind: "skipped"}, false
	}
	in := decodeDoc(docJSON)
	o := obs.Run(prog, in)
	r.Outcome(o.Class())
	res := judge.Compare(o, mv, merr, op)
	switch {
	case res.Inconclusive:
		r.Inconclusive(res.Detail)
		return o, false
	case res.OK && ev.FittingCallsRejected+ev.FittingCallsRejectedNonCanonical > 0 && o.Kind == "error" && (o.ErrClass == "argcount" || strings.HasPrefix(o.ErrClass, "argtype")):
		// port and positional model agree on an argument error, but the call
		// fits its signature: the property demands that it succeeds
		r.Violation("signature:fitting-call-rejected:positional-assignment", "the arguments fit the declared signature (an in-order assignment exists in which an optional or context-substituted parameter that is not the last one takes no argument, or a variadic one several) but the call fails with "+o.String()+", which is what assigning the arguments to the parameters one by one from the left gives", map[string]any{"tag": tag})
		return o, false
	case res.OK:
		r.Held()
		r.Sample(o.Kind+":"+tag, map[string]any{"prog": prog, "input": docJSON, "port": o.String(), "model": judge.ShowModel(mv, merr)})
		return o, true
	}
	sig := "mismatch:" + o.Kind
	if ev.PartialsMade > 0 && o.Kind != "panic" && o.Kind != "compile-error" {
		// does the port agree with a model that evaluates the given arguments of
		// a partial application at every call instead of where it is written?
		ev2 := &refeval.Evaluator{Max: 2000000, MaxRange: ev.MaxRange, PartialArgsAtCall: true}
		mv2, merr2 := ev2.Run(tree, decodeDoc(docJSON), nil)
		if r2 := judge.Compare(o, mv2, merr2, op); r2.OK && !r2.Inconclusive {
			r.Violation("partial:given-arguments-evaluated-at-call-time", "f(?, x) must be a function of its placeholders, but the port evaluates x again at every call (in the environment as it is by then): "+res.Detail, map[string]any{"tag": tag})
			return o, false
		}
	}
	if ev.OddObjectCallbacks > 0 && o.Kind == "error" {
		// does the port agree with a model in which $each and $sift reject
		// callbacks that declare no parameter or more than three?
		ev2 := &refeval.Evaluator{Max: 2000000, MaxRange: ev.MaxRange, RejectOddObjectCallbacks: true}
		mv2, merr2 := ev2.Run(tree, decodeDoc(docJSON), nil)
		if r2 := judge.Compare(o, mv2, merr2, op); r2.OK && !r2.Inconclusive {
			r.Violation("callback:each-sift-reject-0-or-4-parameters", "a function value ignores surplus arguments and receives missing ones as 'no value', but $each/$sift refuse a callback that declares no parameter or more than three: "+res.Detail, map[string]any{"tag": tag})
			return o, false
		}
	}
	if o.Kind == "panic" {
		sig = "panic:" + o.Panic.Site + ":" + o.Panic.Class
	}
	if o.Kind == "compile-error" {
		sig = "compile-error"
	}
	r.Violation(sig, res.Detail, map[string]any{"tag": tag})
	return o, false
}


// c03LargestRange: the largest range that is not an error has exactly ten
// million items (the port alone is run: building the range a second time in the
// model would double a memory footprint of several hundred megabytes).
func c03LargestRange(r *fw.Rec) {
	prog := "$count([-4999999..5000000])"
	r.ExpectCost(4)
	r.Begin(prog, "")
	r.Tag("probe:largest-range")
	r.Nontrivial(prog)
	o := obs.Run(prog, nil)
	r.Outcome(o.Class())
	want := 10000000.0
	if o.Kind != "value" || !obs.Equal(obs.Normalize(o.Val, nil), want) {
		r.Violation("range-limit:ten-million-items-rejected", "a range of exactly 10 000 000 items is within the limit (only more than ten million is an error), but "+prog+" gave "+o.String(), nil)
		return
	}
	r.Held()
}
