package props

import (
	"fmt"
	"sort"

	"verif/harness/fw"
	"verif/harness/jast"
	"verif/harness/judge"
	"verif/harness/obs"
	"verif/harness/prng"
)

// C14: object construction, grouping, object functions.

type c14Gen struct {
	r    *prng.R
	tags map[string]bool
}

// items: objects {id, g, h, v, w}; g/h are the grouping members.
func (g *c14Gen) items() []interface{} {
	r := g.r
	n := r.Range(0, 8)
	nkeys := r.Range(1, 4)
	out := make([]interface{}, n)
	for i := range out {
		m := map[string]interface{}{"id": float64(i + 1), "v": float64(r.Range(1, 5)), "w": []string{"p", "q", "r"}[r.Intn(3)]}
		switch k := r.Intn(12); {
		case k == 0:
			g.tags["absent-key"] = true // member g missing
		case k == 1:
			g.tags["non-string-key"] = true
			m["g"] = []interface{}{1.0, true, A{"x"}, O{"a": 1.0}}[r.Intn(4)]
		default:
			m["g"] = []string{"A", "B", "C", "D"}[r.Intn(nkeys)]
		}
		m["h"] = []string{"A", "X", "Y"}[r.Intn(3)]
		out[i] = m
	}
	return out
}

func (g *c14Gen) keyExpr() jast.Node {
	r := g.r
	switch r.Intn(6) {
	case 0:
		g.tags["key:concat"] = true
		return &jast.Bin{Op: "&", L: &jast.Name{V: "g"}, R: &jast.Str{V: "!"}}
	case 1:
		g.tags["key:h"] = true
		return &jast.Name{V: "h"}
	case 2:
		g.tags["key:cond"] = true
		return &jast.Cond{If: &jast.Bin{Op: ">", L: &jast.Name{V: "v"}, R: &jast.Num{V: 2}}, Then: &jast.Str{V: "big"}, Else: &jast.Name{V: "g"}}
	}
	return &jast.Name{V: "g"}
}

func (g *c14Gen) valExpr() jast.Node {
	r := g.r
	switch r.Intn(12) {
	case 9:
		// the grouped items themselves: one item is that item, several are an array
		g.tags["val:context-itself"] = true
		return &jast.Var{Name: ""}
	case 10:
		g.tags["val:type-of-context"] = true
		return &jast.Call{Fn: &jast.Var{Name: "type"}, Args: []jast.Node{&jast.Var{Name: ""}}}
	case 11:
		g.tags["val:count-of-context"] = true
		return &jast.Call{Fn: &jast.Var{Name: "count"}, Args: []jast.Node{&jast.Var{Name: ""}}}
	case 0:
		g.tags["val:sum"] = true
		return &jast.Call{Fn: &jast.Var{Name: "sum"}, Args: []jast.Node{&jast.Name{V: "v"}}}
	case 1:
		g.tags["val:count"] = true
		return &jast.Call{Fn: &jast.Var{Name: "count"}, Args: []jast.Node{&jast.Name{V: "v"}}}
	case 2:
		g.tags["val:object"] = true
		return &jast.Object{Pairs: [][2]jast.Node{{&jast.Str{V: "x"}, &jast.Name{V: "v"}}}}
	case 3:
		g.tags["val:array"] = true
		return &jast.Array{Items: []jast.Node{&jast.Name{V: "w"}}}
	case 4:
		g.tags["val:missing"] = true
		return &jast.Name{V: "nothing"}
	case 5:
		g.tags["val:literal"] = true
		return &jast.Num{V: 1}
	case 6:
		g.tags["val:w"] = true
		return &jast.Name{V: "w"}
	}
	return &jast.Name{V: "id"}
}

func (g *c14Gen) grouping() (jast.Node, interface{}) {
	r := g.r
	items := g.items()
	np := r.Range(1, 3)
	var pairs [][2]jast.Node
	for i := 0; i < np; i++ {
		var k jast.Node
		if r.Intn(4) == 0 {
			g.tags["literal-key"] = true
			k = &jast.Str{V: r.Pick("A", "L", "M")}
		} else {
			k = g.keyExpr()
		}
		pairs = append(pairs, [2]jast.Node{k, g.valExpr()})
	}
	g.tags[fmt.Sprintf("pairs:%d", np)] = true
	var tree jast.Node
	if r.Intn(12) == 0 {
		// nothing to group: key and value expressions see no context item
		g.tags["nothing-to-group"] = true
		k := []jast.Node{
			&jast.Call{Fn: &jast.Var{Name: "string"}, Args: []jast.Node{&jast.Call{Fn: &jast.Var{Name: "exists"}, Args: []jast.Node{&jast.Var{Name: ""}}}}},
			&jast.Bin{Op: "&", L: &jast.Str{V: "n"}, R: &jast.Call{Fn: &jast.Var{Name: "count"}, Args: []jast.Node{&jast.Var{Name: ""}}}},
			&jast.Str{V: "L"},
			&jast.Call{Fn: &jast.Var{Name: "type"}, Args: []jast.Node{&jast.Var{Name: ""}}},
		}[r.Intn(4)]
		return &jast.Group{X: &jast.Name{V: r.Pick("nothing", "missing")}, Pairs: [][2]jast.Node{{k, g.valExpr()}}}, O{"arr": items}
	}
	switch r.Intn(7) {
	case 6:
		// the grouped sequence is ordered first: the items of a group are in that
		// order (the members of the object are unordered, the grouped items are not)
		g.tags["grouping-of-an-ordered-sequence"] = true
		srt := &jast.Sort{X: &jast.Name{V: "arr"}, Terms: []jast.SortTerm{{Dir: r.Pick(">", "<", ""), X: &jast.Name{V: r.Pick("id", "v")}}}}
		ordered := append([][2]jast.Node{{g.keyExpr(), &jast.Array{Items: []jast.Node{&jast.Name{V: "id"}}}}}, pairs...)
		return &jast.Group{X: srt, Pairs: ordered}, O{"arr": items}
	case 5:
		// the grouped items are the units of an array-constructor step: one unit
		// is one item (not the list of items), however many there are
		g.tags["grouping-of-constructor-units"] = true
		its := items
		if r.Bool() && len(its) > 0 {
			its = its[:1]
		}
		at := func(i float64) jast.Node {
			return &jast.Pred{X: &jast.Var{Name: ""}, Filters: []jast.Node{&jast.Num{V: i}}}
		}
		unit := &jast.Array{Items: []jast.Node{&jast.Name{V: "g"}, &jast.Name{V: "id"}, &jast.Str{V: "u"}}}
		return &jast.Group{X: &jast.Path{Steps: []jast.Node{&jast.Name{V: "arr"}, unit}},
			Pairs: [][2]jast.Node{{&jast.Bin{Op: "&", L: at(0), R: &jast.Str{V: ""}}, &jast.Array{Items: []jast.Node{at(1), &jast.Call{Fn: &jast.Var{Name: "count"}, Args: []jast.Node{&jast.Var{Name: ""}}}}}}}}, O{"arr": its}
	case 4:
		// the grouped sequence is the context array itself or a variable, and a
		// step or the keep-array marker follows: one grouping, not one per member
		g.tags["grouping-of-$-or-variable-followed-by-a-step"] = true
		var head jast.Node = &jast.Var{Name: ""}
		if r.Bool() {
			head = &jast.Var{Name: "x"}
		}
		grp := &jast.Group{X: head, Pairs: pairs}
		var p jast.Node
		if r.Bool() {
			p = &jast.Path{Steps: []jast.Node{grp}, Keep: true}
		} else {
			p = &jast.Path{Steps: []jast.Node{grp, &jast.Var{Name: ""}}}
		}
		return &jast.Block{Exprs: []jast.Node{&jast.Assign{Name: "x", Val: &jast.Var{Name: ""}}, p}}, items
	case 0:
		g.tags["constructor-in-path"] = true
		tree = &jast.Path{Steps: []jast.Node{&jast.Name{V: "arr"}, &jast.Object{Pairs: pairs}}}
	default:
		tree = &jast.Group{X: &jast.Name{V: "arr"}, Pairs: pairs}
	}
	return tree, O{"arr": items}
}

// partition law, checked structurally: arr{g: id} must mention every id whose
// key is a string exactly once, in input order within its group.
func partitionLaw(items []interface{}, out interface{}) string {
	m, ok := out.(map[string]interface{})
	if !ok {
		return "grouping result is not an object"
	}
	want := map[string][]float64{}
	for _, it := range items {
		o := it.(map[string]interface{})
		k, _ := o["g"].(string)
		want[k] = append(want[k], o["id"].(float64))
	}
	if len(want) != len(m) {
		return fmt.Sprintf("%d groups, want %d", len(m), len(want))
	}
	for k, ids := range want {
		got, ok := m[k]
		if !ok {
			return "group " + k + " missing"
		}
		var gl []interface{}
		switch x := got.(type) {
		case []interface{}:
			gl = x
		default:
			gl = []interface{}{x}
		}
		if len(gl) != len(ids) {
			return fmt.Sprintf("group %s has %d items, want %d", k, len(gl), len(ids))
		}
		for i := range ids {
			if f, ok := gl[i].(float64); !ok || f != ids[i] {
				return fmt.Sprintf("group %s: item %d is %v, want id %v (order or membership wrong)", k, i, gl[i], ids[i])
			}
		}
	}
	return ""
}

func (g *c14Gen) object() map[string]interface{} {
	r := g.r
	n := r.Range(0, 6)
	keys := []string{"a", "b", "c", "k", "v", "b c", "and", "x1"}
	m := map[string]interface{}{}
	for i := 0; i < n; i++ {
		m[keys[r.Intn(len(keys))]] = []interface{}{1.0, 2.0, "s", true, A{1.0, 2.0}, O{"z": 1.0}, A{}, "", 0.0, O{"y": 2.0}, O{"z": 3.0, "w": O{"q": 1.0}}, O{"w": O{"r": 2.0}}, A{O{"z": 1.0}}}[r.Intn(13)]
	}
	return m
}

// laws are evaluated inside JSONata and must be true.
func (g *c14Gen) law() (jast.Node, O, string, interface{}) {
	r := g.r
	o := g.object()
	o2 := g.object()
	doc := O{"o": o, "p": o2}
	ov := &jast.Name{V: "o"}
	call := func(fn string, args ...jast.Node) jast.Node { return &jast.Call{Fn: &jast.Var{Name: fn}, Args: args} }
	keys := make([]interface{}, 0, len(o))
	for _, k := range sortedKeysOf(o) {
		keys = append(keys, k)
	}
	switch r.Intn(13) {
	case 12:
		// $keys of an array of objects: every member name of every object, once
		n := r.Range(2, 4)
		os := make(A, n)
		union := map[string]bool{}
		for j := range os {
			m := g.object()
			os[j] = m
			for k := range m {
				union[k] = true
			}
		}
		doc["os"] = os
		osv := &jast.Name{V: "os"}
		if len(union) == 0 {
			return call("count", call("keys", osv)), doc, "law:keys-of-array-empty", 0.0
		}
		names := make([]string, 0, len(union))
		for k := range union {
			names = append(names, k)
		}
		sort.Strings(names)
		want := make([]interface{}, len(names))
		for i, k := range names {
			want[i] = k
		}
		return call("sort", call("keys", osv)), doc, "law:keys-of-array", interface{}(want)
	case 11:
		// $spread over an array of objects: one single-member object per member
		// of every object (an object without members contributes nothing)
		n := r.Range(1, 4)
		os := make(A, n)
		total := 0
		for j := range os {
			m := g.object()
			if r.Intn(3) == 0 {
				m = map[string]interface{}{}
			}
			os[j] = m
			total += len(m)
		}
		doc["os"] = os
		osv := &jast.Name{V: "os"}
		if r.Bool() {
			return call("count", call("spread", osv)), doc, "law:spread-array-count", float64(total)
		}
		if total == 0 {
			return call("count", call("spread", osv)), doc, "law:spread-array-empty", 0.0
		}
		return &jast.Bin{Op: "=", L: call("merge", call("spread", osv)), R: call("merge", osv)}, doc, "law:merge-spread-array", true
	case 10:
		// later objects take precedence, also when an object occurs twice in the list
		want := map[string]interface{}{}
		for k, v := range o2 {
			want[k] = v
		}
		for k, v := range o {
			want[k] = v
		}
		return call("merge", &jast.Array{Items: []jast.Node{ov, &jast.Name{V: "p"}, ov}}), doc, "law:merge-same-object-twice", want
	case 8, 9:
		// $lookup over an array of objects = field selection over that array
		// (array-valued members are flattened into the result by both)
		n := r.Range(1, 4)
		os := make(A, n)
		for j := range os {
			os[j] = g.object()
		}
		doc["os"] = os
		k := []string{"a", "b", "c", "k", "v"}[r.Intn(5)]
		var hits A
		fromArray := false
		for _, x := range os {
			if v, ok := x.(map[string]interface{})[k]; ok {
				if a, isArr := v.([]interface{}); isArr {
					hits = append(hits, a...)
					fromArray = true
				} else {
					hits = append(hits, v)
				}
			}
		}
		osv := &jast.Name{V: "os"}
		if len(hits) == 0 {
			return call("count", call("lookup", osv, &jast.Str{V: k})), doc, "law:lookup-array-of-objects-missing", 0.0
		}
		if len(hits) == 1 && fromArray {
			// a single hit that is a one-member array: field selection keeps the
			// array, $lookup (here and in the reference implementation) the member
			return &jast.Bin{Op: "=", L: call("count", call("lookup", osv, &jast.Str{V: k})), R: &jast.Num{V: 1}}, doc, "law:lookup-array-of-objects-single", true
		}
		return &jast.Bin{Op: "=", L: call("string", call("lookup", osv, &jast.Str{V: k})), R: call("string", &jast.Path{Steps: []jast.Node{osv, &jast.Name{V: k}}})}, doc, "law:lookup-array-of-objects", true
	case 0:
		if len(o) == 0 {
			return call("merge", call("spread", ov)), doc, "law:merge-spread-empty", O{}
		}
		return &jast.Bin{Op: "=", L: call("merge", call("spread", ov)), R: ov}, doc, "law:merge-spread", true
	case 1:
		return &jast.Bin{Op: "=", L: call("count", call("keys", ov)), R: call("count", call("spread", ov))}, doc, "law:count-keys-spread", true
	case 2:
		// sorted keys = sorted distinct member names
		want := interface{}(keys)
		if len(keys) == 0 {
			return call("count", call("keys", ov)), doc, "law:keys-empty", 0.0
		}
		return call("sort", call("keys", ov)), doc, "law:keys-sorted", want
	case 3:
		// $each visits every member exactly once
		if len(keys) >= 2 && r.Intn(2) == 0 {
			// ... and reports what the callback yields, nothing where it yields
			// nothing: the callback yields the name of the members picked here
			var pick A
			var names []jast.Node
			for _, k := range keys {
				if r.Bool() {
					pick = append(pick, k)
					names = append(names, &jast.Str{V: k.(string)})
				}
			}
			f := &jast.Lambda{Params: []string{"v", "k"}, Body: &jast.Cond{If: &jast.Bin{Op: "in", L: &jast.Var{Name: "k"}, R: &jast.Array{Items: names}}, Then: &jast.Var{Name: "k"}}}
			if len(pick) == 0 {
				return call("count", call("each", ov, f)), doc, "law:each-yields-for-no-member", 0.0
			}
			return call("sort", call("each", ov, f)), doc, "law:each-yields-for-some-members", interface{}(pick)
		}
		want := interface{}(keys)
		if len(keys) == 0 {
			return call("count", call("each", ov, &jast.Lambda{Params: []string{"v", "k"}, Body: &jast.Var{Name: "k"}})), doc, "law:each-empty", 0.0
		}
		return call("sort", call("each", ov, &jast.Lambda{Params: []string{"v", "k"}, Body: &jast.Var{Name: "k"}})), doc, "law:each-keys", want
	case 4:
		if len(o) == 0 {
			return call("count", call("sift", ov, &jast.Lambda{Params: []string{"v"}, Body: &jast.Bool{V: true}})), doc, "law:sift-empty", 0.0
		}
		return &jast.Bin{Op: "=", L: call("sift", ov, &jast.Lambda{Params: []string{"v"}, Body: &jast.Bool{V: true}}), R: ov}, doc, "law:sift-true", true
	case 5:
		if len(keys) == 0 {
			return call("count", call("lookup", ov, &jast.Str{V: "a"})), doc, "law:lookup-missing", 0.0
		}
		k := keys[r.Intn(len(keys))].(string)
		if a, isArr := o[k].([]interface{}); isArr && len(a) == 0 {
			// an empty array member: field selection yields 'no value' (an empty
			// result), $lookup the empty array; the two are identified (DESIGN 2.4)
			return call("count", call("lookup", ov, &jast.Str{V: k})), doc, "law:lookup-empty-array", 0.0
		}
		// compare through $string so that array-valued members compare structurally
		return &jast.Bin{Op: "=", L: call("string", call("lookup", ov, &jast.Str{V: k})), R: call("string", &jast.Path{Steps: []jast.Node{ov, &jast.Name{V: k}}})}, doc, "law:lookup-field", true
	case 6:
		// right-biased union
		want := map[string]interface{}{}
		for k, v := range o {
			want[k] = v
		}
		for k, v := range o2 {
			want[k] = v
		}
		return call("merge", &jast.Array{Items: []jast.Node{ov, &jast.Name{V: "p"}}}), doc, "law:merge-right-biased", want
	}
	// $spread yields one single-member object per member
	if len(keys) == 0 {
		return call("count", call("spread", ov)), doc, "law:spread-empty", 0.0
	}
	return call("count", call("spread", ov)), doc, "law:spread-count", float64(len(keys))
}

func init() {
	_ = sort.Strings
	fw.Register(&fw.Prop{
		ID: "C14", Title: "Object construction, grouping and object functions share one object model",
		Rule: "cases: PRNG-generated (a) groupings arr{k: v, ...} and constructor steps arr.{k: v} over 0..8 objects with unique ids whose key expression (member, concatenation, conditional, literal) maps onto 1..4 distinct strings with collisions, absent keys and non-string keys, 1..3 pairs, value expressions member / $sum / $count / nested object / nested array / missing / literal, judged by the reference model (objects unordered; duplicate-key vs illegal-key: either accepted when both faults are present); " +
			"(b) the partition law checked structurally on arr{g: id}: every id exactly once, in input order within its group; (c) object-function laws evaluated on generated null-free objects of 0..6 members: $merge($spread(o)) = o, $count($keys(o)) = $count($spread(o)), sorted $keys = sorted member names, $each visits every member once, $sift(o, true) = o, $lookup(o,k) = o.k, $lookup(os,k) = os.k for arrays os of 1..4 such objects (array-valued members flattened), $merge([o,p]) = right-biased union, $merge([o,p,o]) = o over p, $spread count, and for arrays of objects (some without members) $count($spread(os)) = number of members and $merge($spread(os)) = $merge(os), sorted $keys(os) = sorted union of the member names. " +
			"non-trivial = >=2 items or >=2 members; distinct by (program, input)",
		Assumptions: []string{"a one-item group presents the item itself to the value expression (reference implementation; the port after its repair)", "an absent key counts as 'not a string' (ErrIllegalKey), as in the port"},
		Plan: func(tier string, seed uint64) *fw.Plan {
			n := int64(25000)
			if tier == "thorough" {
				n = 800000
			}
			return &fw.Plan{N: n,
				Run: func(i int64, r *fw.Rec) {
					rr := prng.New(seed, 0xC14, uint64(i))
					g := &c14Gen{r: rr, tags: map[string]bool{}}
					switch i % 4 {
					case 0, 1:
						tree, doc := g.grouping()
						for t := range g.tags {
							r.Tag(t)
						}
						modelCheck(r, tree, doc, "grouping", judge.Opts{AnyErrorOf: []string{"eval:13", "eval:14"}}, nil)
					case 2:
						items := g.items()
						tree := &jast.Group{X: &jast.Name{V: "arr"}, Pairs: [][2]jast.Node{{&jast.Name{V: "g"}, &jast.Name{V: "id"}}}}
						o, ok := modelCheck(r, tree, O{"arr": items}, "partition", judge.Opts{}, nil)
						if ok && o.Kind == "value" {
							if msg := partitionLaw(items, obs.Normalize(o.Val, nil)); msg != "" {
								r.Violation("partition-law", msg+"; result "+obs.Show(o.Val), nil)
							} else {
								r.Count("partition_law_checked", 1)
							}
						}
					default:
						tree, doc, tag, want := g.law()
						c14Law(r, tree, doc, tag, want)
					}
				}}
		},
	})
}

func c14Law(r *fw.Rec, tree jast.Node, doc O, tag string, want interface{}) {
	tree = jast.Normalize(tree)
	prog := jast.Print(tree, jast.Style{Space: 1})
	docJSON := genJSON(doc)
	r.Begin(prog, docJSON)
	r.Tag(tag)
	r.Nontrivial(prog + "\x00" + docJSON)
	o := obs.Run(prog, decodeDoc(docJSON))
	r.Outcome(o.Class())
	if o.Kind != "value" {
		r.Violation("law:"+tag, "law did not evaluate to a value: "+o.String(), nil)
		return
	}
	got := obs.Normalize(o.Val, nil)
	w := obs.Normalize(want, nil)
	// $keys / $each collapse a single result to the item itself
	if wa, ok := w.([]interface{}); ok && len(wa) == 1 {
		if _, isArr := got.([]interface{}); !isArr {
			got = []interface{}{got}
		}
	}
	if !obs.Equal(got, w) {
		r.Violation("law:"+tag, fmt.Sprintf("law evaluated to %s, want %s", obs.ShowNorm(got), obs.ShowNorm(w)), nil)
		return
	}
	r.Held()
	r.Sample(tag, map[string]any{"prog": prog, "input": docJSON, "result": obs.ShowNorm(got)})
}
