package props

import (
	"fmt"
	"strings"
	"time"

	jsonata "github.com/blues/jsonata-go"

	"verif/harness/fw"
	"verif/harness/obs"
	"verif/harness/prng"
)

// C19: $fromMillis / $toMillis. Oracle: an independent proleptic-Gregorian
// calendar (days-from-civil arithmetic); Go's time package is only used to
// cross-check the harness's own calendar at start-up.

func floorDiv(a, b int64) int64 {
	q := a / b
	if (a%b != 0) && ((a < 0) != (b < 0)) {
		q--
	}
	return q
}

func daysFromCivil(y, m, d int64) int64 {
	if m <= 2 {
		y--
	}
	era := floorDiv(y, 400)
	yoe := y - era*400
	mp := (m + 9) % 12
	doy := (153*mp+2)/5 + d - 1
	doe := yoe*365 + yoe/4 - yoe/100 + doy
	return era*146097 + doe - 719468
}

func civilFromDays(z int64) (y, m, d int64) {
	z += 719468
	era := floorDiv(z, 146097)
	doe := z - era*146097
	yoe := (doe - doe/1460 + doe/36524 - doe/146096) / 365
	y = yoe + era*400
	doy := doe - (365*yoe + yoe/4 - yoe/100)
	mp := (5*doy + 2) / 153
	d = doy - (153*mp+2)/5 + 1
	if mp < 10 {
		m = mp + 3
	} else {
		m = mp - 9
	}
	if m <= 2 {
		y++
	}
	return
}

func isLeap(y int64) bool { return y%4 == 0 && (y%100 != 0 || y%400 == 0) }

type civil struct {
	Y, M, D, H, Mi, S, Ms int64
	Wd                      int64 // 0 = Sunday
	Doy                     int64
	IsoW                    int64
	OffMin                  int64
}

func isoWeeksInYear(y int64) int64 {
	// a year has 53 ISO weeks if Jan 1 is a Thursday, or a Wednesday in a leap year
	jan1 := (daysFromCivil(y, 1, 1) + 4) % 7
	if jan1 < 0 {
		jan1 += 7
	}
	if jan1 == 4 || (jan1 == 3 && isLeap(y)) {
		return 53
	}
	return 52
}

func civilOf(ms int64, offMin int64) civil {
	local := ms + offMin*60000
	days := floorDiv(local, 86400000)
	tod := local - days*86400000
	y, m, d := civilFromDays(days)
	wd := (days + 4) % 7
	if wd < 0 {
		wd += 7
	}
	doy := days - daysFromCivil(y, 1, 1) + 1
	isoWd := wd
	if isoWd == 0 {
		isoWd = 7
	}
	w := (doy - isoWd + 10) / 7
	if w < 1 {
		w = isoWeeksInYear(y - 1)
	} else if w > isoWeeksInYear(y) {
		w = 1
	}
	return civil{Y: y, M: m, D: d, H: tod / 3600000, Mi: tod / 60000 % 60, S: tod / 1000 % 60, Ms: tod % 1000, Wd: wd, Doy: doy, IsoW: w, OffMin: offMin}
}

var monthNames = []string{"", "January", "February", "March", "April", "May", "June", "July", "August", "September", "October", "November", "December"}
var dayNames = []string{"Sunday", "Monday", "Tuesday", "Wednesday", "Thursday", "Friday", "Saturday"}

func ordinal(n int64) string {
	s := "th"
	switch {
	case n%10 == 1 && n%100 != 11:
		s = "st"
	case n%10 == 2 && n%100 != 12:
		s = "nd"
	case n%10 == 3 && n%100 != 13:
		s = "rd"
	}
	return fmt.Sprintf("%d%s", n, s)
}

func offsetText(off int64, sep string, z bool) string {
	if off == 0 && z {
		return "Z"
	}
	sign := "+"
	if off < 0 {
		sign = "-"
		off = -off
	}
	return fmt.Sprintf("%s%02d%s%02d", sign, off/60, sep, off%60)
}

// the component picture and the oracle's rendering of it, component by component
var c19Components = []struct {
	Pic string
	Fn  func(c civil) string
}{
	{"[Y]", func(c civil) string { return fmt.Sprint(c.Y) }},
	{"[Y0001]", func(c civil) string { return fmt.Sprintf("%04d", c.Y) }},
	{"[Y01]", func(c civil) string { return fmt.Sprintf("%02d", c.Y%100) }},
	{"[M]", func(c civil) string { return fmt.Sprint(c.M) }},
	{"[M1]", func(c civil) string { return fmt.Sprint(c.M) }},
	{"[M01]", func(c civil) string { return fmt.Sprintf("%02d", c.M) }},
	{"[MNn]", func(c civil) string { return monthNames[c.M] }},
	{"[MN]", func(c civil) string { return strings.ToUpper(monthNames[c.M]) }},
	{"[Mn]", func(c civil) string { return strings.ToLower(monthNames[c.M]) }},
	{"[MNn,3-3]", func(c civil) string { return monthNames[c.M][:3] }},
	{"[D]", func(c civil) string { return fmt.Sprint(c.D) }},
	{"[D1]", func(c civil) string { return fmt.Sprint(c.D) }},
	{"[D01]", func(c civil) string { return fmt.Sprintf("%02d", c.D) }},
	{"[D1o]", func(c civil) string { return ordinal(c.D) }},
	{"[d1o]", func(c civil) string { return ordinal(c.Doy) }},
	{"[Y1o]", func(c civil) string { return ordinal(c.Y) }},
	{"[m1o]", func(c civil) string { return ordinal(c.Mi) }},
	{"[W1o]", func(c civil) string { return ordinal(c.IsoW) }},
	{"[d]", func(c civil) string { return fmt.Sprint(c.Doy) }},
	{"[d001]", func(c civil) string { return fmt.Sprintf("%03d", c.Doy) }},
	{"[FNn]", func(c civil) string { return dayNames[c.Wd] }},
	{"[F]", func(c civil) string { return strings.ToLower(dayNames[c.Wd]) }},
	{"[FNn,3-3]", func(c civil) string { return dayNames[c.Wd][:3] }},
	{"[FN,*-3]", func(c civil) string { return strings.ToUpper(dayNames[c.Wd][:3]) }},
	{"[W]", func(c civil) string { return fmt.Sprint(c.IsoW) }},
	{"[W01]", func(c civil) string { return fmt.Sprintf("%02d", c.IsoW) }},
	{"[H]", func(c civil) string { return fmt.Sprint(c.H) }},
	{"[H01]", func(c civil) string { return fmt.Sprintf("%02d", c.H) }},
	{"[h]", func(c civil) string { return fmt.Sprint((c.H+11)%12 + 1) }},
	{"[h01]", func(c civil) string { return fmt.Sprintf("%02d", (c.H+11)%12+1) }},
	{"[P]", func(c civil) string {
		if c.H >= 12 {
			return "pm"
		}
		return "am"
	}},
	{"[PN]", func(c civil) string {
		if c.H >= 12 {
			return "PM"
		}
		return "AM"
	}},
	{"[PNn]", func(c civil) string {
		if c.H >= 12 {
			return "Pm"
		}
		return "Am"
	}},
	{"[Pn]", func(c civil) string {
		if c.H >= 12 {
			return "pm"
		}
		return "am"
	}},
	{"[Mn]", func(c civil) string { return strings.ToLower(monthNames[c.M]) }},
	{"[FN]", func(c civil) string { return strings.ToUpper(dayNames[c.Wd]) }},
	{"[m]", func(c civil) string { return fmt.Sprintf("%02d", c.Mi) }},
	{"[m01]", func(c civil) string { return fmt.Sprintf("%02d", c.Mi) }},
	{"[m1]", func(c civil) string { return fmt.Sprint(c.Mi) }},
	{"[s]", func(c civil) string { return fmt.Sprintf("%02d", c.S) }},
	{"[s01]", func(c civil) string { return fmt.Sprintf("%02d", c.S) }},
	{"[f001]", func(c civil) string { return fmt.Sprintf("%03d", c.Ms) }},
	{"[f01]", func(c civil) string { return fmt.Sprintf("%03d", c.Ms)[:2] }},
	{"[Z]", func(c civil) string { return offsetText(c.OffMin, ":", false) }},
	{"[Z01:01]", func(c civil) string { return offsetText(c.OffMin, ":", false) }},
	{"[Z0101]", func(c civil) string { return offsetText(c.OffMin, "", false) }},
	{"[Z01:01t]", func(c civil) string { return offsetText(c.OffMin, ":", true) }},
	{"[z]", func(c civil) string { return "GMT" + offsetText(c.OffMin, ":", false) }},
	// width modifiers on numeric components: a minimum width pads with zeros, a
	// maximum width on the year keeps the low-order digits
	{"[D1,2]", func(c civil) string { return fmt.Sprintf("%02d", c.D) }},
	{"[M1,2]", func(c civil) string { return fmt.Sprintf("%02d", c.M) }},
	{"[H1,2]", func(c civil) string { return fmt.Sprintf("%02d", c.H) }},
	{"[m1,3]", func(c civil) string { return fmt.Sprintf("%03d", c.Mi) }},
	{"[s1,2]", func(c civil) string { return fmt.Sprintf("%02d", c.S) }},
	{"[d,5]", func(c civil) string { return fmt.Sprintf("%05d", c.Doy) }},
	{"[W1,3]", func(c civil) string { return fmt.Sprintf("%03d", c.IsoW) }},
	{"[Y,6]", func(c civil) string { return fmt.Sprintf("%06d", c.Y) }},
	{"[Y,2-2]", func(c civil) string { return fmt.Sprintf("%02d", c.Y%100) }},
	{"[D01,1]", func(c civil) string { return fmt.Sprintf("%02d", c.D) }},
	// "*" as either bound means unbounded
	{"[D1,2-*]", func(c civil) string { return fmt.Sprintf("%02d", c.D) }},
	{"[H,*-*]", func(c civil) string { return fmt.Sprint(c.H) }},
	{"[MNn,3-*]", func(c civil) string { return monthNames[c.M] }},
	{"[Y,5-*]", func(c civil) string { return fmt.Sprintf("%05d", c.Y) }},
	// the same width modifier, and no presentation, on components whose default
	// presentations differ (a name, a number, a two-digit number): what a marker
	// means does not depend on the markers rendered before it
	{"[F,*-3]", func(c civil) string { return strings.ToLower(dayNames[c.Wd][:3]) }},
	{"[M,*-3]", func(c civil) string { return fmt.Sprint(c.M) }},
	{"[m,*-3]", func(c civil) string { return fmt.Sprintf("%02d", c.Mi) }},
	{"[D,2]", func(c civil) string { return fmt.Sprintf("%02d", c.D) }},
	{"[s,2]", func(c civil) string { return fmt.Sprintf("%02d", c.S) }},
	{"[H,2]", func(c civil) string { return fmt.Sprintf("%02d", c.H) }},
	{"[F,2]", func(c civil) string { return strings.ToLower(dayNames[c.Wd]) }},
}

var c19Pic string

func init() {
	var parts []string
	for _, c := range c19Components {
		parts = append(parts, c.Pic)
	}
	c19Pic = strings.Join(parts, "|")
}

const c19RT = "[Y0001]-[M01]-[D01] [H01]:[m01]:[s01].[f001] [Z01:01]"

const c19Prog = `[$fromMillis(ms, pic, tz), $fromMillis(ms, (), tz), $toMillis($fromMillis(ms, (), tz)), $toMillis($fromMillis(ms, rt, tz), rt)]`

var c19Expr *jsonata.Expr

func tzString(off int64) string {
	sign := "+"
	if off < 0 {
		sign = "-"
		off = -off
	}
	return fmt.Sprintf("%s%02d%02d", sign, off/60, off%60)
}

func c19Instant(r *fw.Rec, ms int64, off int64, tag string) {
	doc := O{"ms": float64(ms), "pic": c19Pic, "rt": c19RT}
	tz := ""
	if off != 0 || ms%3 == 0 {
		tz = tzString(off)
		doc["tz"] = tz
	}
	docJSON := fmt.Sprintf(`{"ms":%d,"tz":%q}`, ms, tz)
	r.Begin(c19Prog, docJSON)
	r.Tag(tag)
	r.Nontrivial(docJSON)
	if c19Expr == nil {
		c19Expr, _ = obs.Compile(c19Prog)
	}
	o := obs.Eval(c19Expr, map[string]interface{}(doc))
	r.Outcome(o.Class())
	if o.Kind != "value" {
		r.Violation("frommillis-failed", "evaluation failed: "+o.String(), nil)
		return
	}
	arr, _ := obs.Normalize(o.Val, nil).([]interface{})
	if len(arr) != 4 {
		r.Violation("frommillis-failed", "unexpected result "+o.String(), nil)
		return
	}
	c := civilOf(ms, off)
	got := strings.Split(fmt.Sprint(arr[0]), "|")
	if len(got) != len(c19Components) {
		r.Violation("component-count", fmt.Sprintf("rendered %d components, want %d: %v", len(got), len(c19Components), arr[0]), nil)
		return
	}
	for i, comp := range c19Components {
		if want := comp.Fn(c); got[i] != want {
			r.Violation("component:"+comp.Pic, fmt.Sprintf("ms=%d tz=%q: component %s rendered %q, the calendar says %q (%04d-%02d-%02d %02d:%02d:%02d.%03d weekday %d)", ms, tz, comp.Pic, got[i], want, c.Y, c.M, c.D, c.H, c.Mi, c.S, c.Ms, c.Wd), nil)
			return
		}
	}
	iso := fmt.Sprintf("%04d-%02d-%02dT%02d:%02d:%02d.%03d%s", c.Y, c.M, c.D, c.H, c.Mi, c.S, c.Ms, offsetText(off, ":", true))
	if arr[1] != iso {
		r.Violation("default-picture", fmt.Sprintf("ms=%d tz=%q: default picture rendered %q, want %q", ms, tz, arr[1], iso), nil)
		return
	}
	if f, ok := arr[2].(float64); !ok || int64(f) != ms {
		r.Violation("roundtrip-default", fmt.Sprintf("$toMillis($fromMillis(%d, (), %q)) = %v", ms, tz, arr[2]), nil)
		return
	}
	if f, ok := arr[3].(float64); !ok || int64(f) != ms {
		r.Violation("roundtrip-picture", fmt.Sprintf("$toMillis($fromMillis(%d, pic, %q), pic) = %v with pic %q", ms, tz, arr[3], c19RT), nil)
		return
	}
	r.Held()
	r.Sample(tag, map[string]any{"ms": ms, "tz": tz, "iso": iso, "components": arr[0]})
}

var c19RTPictures = []struct {
	Pic     string
	Quantum int64 // ms must be a multiple of this
	UTC     bool  // representable only in UTC (no zone component)
}{
	{"[Y0001]-[M01]-[D01]T[H01]:[m01]:[s01].[f001][Z01:01]", 1, false},
	{"[Y0001][M01][D01] [H01][m01][s01] [Z01:01]", 1000, false},
	{"[D01]/[M01]/[Y0001] [H01]:[m01]:[s01].[f001]", 1, true},
	{"[Y0001]-[M01]-[D01] [H01]:[m01]:[s01]", 1000, true},
	{"[Y0001]/[M01]/[D01]", 86400000, true},
	{"[M01].[D01].[Y0001]", 86400000, true},
	{"at [H01]h[m01] on [D01]-[M01]-[Y0001] [Z01:01]", 60000, false},
	// the fraction component somewhere else than directly after "[s01]." or "[s01],"
	{"[Y0001]-[M01]-[D01] [H01]:[m01]:[s01] [f001] [Z01:01]", 1, false},
	{"[f001] ms past [H01]:[m01]:[s01] on [Y0001]-[M01]-[D01]", 1, true},
	{"[Y0001]-[M01]-[D01]T[H01]:[m01]:[s01],[f001]", 1, true},
	// literal text that Go's time layouts read as a field (a digit, a month or day
	// name, PM, MST), and a number directly after "[s01]." (read as a fraction)
	{"[Y0001]-[M01]-[D01] v2", 86400000, true},
	{"[Y0001]-[M01]-[D01] at 3", 86400000, true},
	{"[H01]:[m01] PM on [D01]/[M01]/[Y0001]", 60000, true},
	{"Jan [D01] [M01] [Y0001]", 86400000, true},
	{"[H01]:[m01]:[s01].[D01].[M01].[Y0001]", 1000, true},
}

// literalReadsAsLayout: the picture's literal text contains something that is a
// field in Go's time layouts
func literalReadsAsLayout(pic string) bool {
	var lit strings.Builder
	depth := 0
	for _, r := range pic {
		switch {
		case r == '[':
			depth++
		case r == ']':
			depth--
		case depth == 0:
			lit.WriteRune(r)
		}
	}
	for _, tok := range []string{"1", "2", "3", "4", "5", "6", "7", "PM", "pm", "Jan", "Mon", "MST"} {
		if strings.Contains(lit.String(), tok) {
			return true
		}
	}
	return false
}

// fractionDetached: the picture has [f001] that is not directly preceded by '.' or ','
func fractionDetached(pic string) bool {
	i := strings.Index(pic, "[f001]")
	return i >= 0 && (i == 0 || (pic[i-1] != '.' && pic[i-1] != ','))
}

func c19Misc(r *fw.Rec, rr *prng.R) {
	lo := daysFromCivil(1000, 1, 1) * 86400000
	hi := (daysFromCivil(9999, 12, 31)+1)*86400000 - 1
	span := uint64(hi - lo)
	ms := lo + int64(rr.U64()%span)
	off := int64(rr.Range(-56, 56)) * 15
	switch k := rr.Intn(10); {
	case k < 4:
		p := c19RTPictures[rr.Intn(len(c19RTPictures))]
		ms -= ((ms % p.Quantum) + p.Quantum) % p.Quantum
		doc := O{"ms": float64(ms), "pic": p.Pic}
		prog := "$toMillis($fromMillis(ms, pic), pic)"
		if !p.UTC {
			doc["tz"] = tzString(off)
			prog = "$toMillis($fromMillis(ms, pic, tz), pic)"
		}
		docJSON := genJSON(doc)
		r.Begin(prog, docJSON)
		r.Tag("roundtrip-picture")
		r.Nontrivial(prog + docJSON)
		o := obs.Run(prog, decodeDoc(docJSON))
		r.Outcome(o.Class())
		if f, ok := obs.Normalize(o.Val, nil).(float64); o.Kind != "value" || !ok || int64(f) != ms {
			sig := "roundtrip-picture"
			switch {
			case fractionDetached(p.Pic) && o.Kind == "error":
				sig += ":go-layout:fraction-component-not-after-dot-or-comma"
			case strings.Contains(p.Pic, "[s01].[D01]") && o.Kind == "error":
				sig += ":go-layout:number-after-seconds-and-dot-read-as-fraction"
			case literalReadsAsLayout(p.Pic):
				sig += ":go-layout:literal-text-read-as-layout-field"
			}
			r.Violation(sig, fmt.Sprintf("%s with %s gave %s, want %d", prog, docJSON, o.String(), ms), nil)
			return
		}
		r.Held()
		r.Sample("roundtrip-picture", map[string]any{"ms": ms, "picture": p.Pic})
	case k < 7:
		// errors
		type ec struct{ prog, what string }
		cases := []ec{
			{`$toMillis("garbage")`, "unparsable text"}, {`$toMillis("2017-13-45T00:00:00Z")`, "impossible date"}, {`$toMillis("")`, "empty text"}, {`$toMillis("12:30")`, "unparsable text"},
			{`$toMillis("2017-05-15", "[Y0001]/[M01]/[D01]")`, "text does not match picture"},
			{`$fromMillis(0, "[")`, "unterminated marker"}, {`$fromMillis(0, "[Y")`, "unterminated marker"}, {`$fromMillis(0, "]")`, "closing bracket"}, {`$fromMillis(0, "[]")`, "empty marker"},
			{`$fromMillis(0, "[Q]")`, "unknown component"}, {`$fromMillis(0, "[Y,]")`, "empty width"}, {`$fromMillis(0, "[Y,0]")`, "zero width"}, {`$fromMillis(0, "[Y,3-2]")`, "max<min width"},
			{`$fromMillis(0, "[Y,a]")`, "bad width"}, {`$fromMillis(0, "no markers")`, "no markers"}, {`$fromMillis(0, "[Y[M]]")`, "bracket in marker"},
			{`$fromMillis(0, (), "0530")`, "tz without sign"}, {`$fromMillis(0, (), "+05:30")`, "tz with colon"}, {`$fromMillis(0, (), "++100")`, "tz double sign"}, {`$fromMillis(0, (), "+-100")`, "tz double sign"},
			{`$fromMillis(0, (), "+1a00")`, "tz with letter"}, {`$fromMillis(0, (), "+530")`, "tz too short"}, {`$fromMillis(0, (), "+05300")`, "tz too long"}, {`$fromMillis(0, (), "UTC")`, "tz name"}, {`$fromMillis(0, (), " 0100")`, "tz with space"},
			{`$toMillis("2017", "[")`, "invalid picture"},
		}
		// offsets whose minute field is not a number of minutes within an hour
		for k := 0; k < 8; k++ {
			z := fmt.Sprintf("%s%02d%02d", rr.Pick("+", "-"), rr.Range(0, 14), rr.Range(60, 99))
			cases = append(cases, ec{`$fromMillis(0, (), "` + z + `")`, "tz minutes out of range"})
		}
		c := cases[rr.Intn(len(cases))]
		r.Begin(c.prog, "")
		r.Tag("error:" + c.what)
		r.Nontrivial(c.prog)
		o := obs.Run(c.prog, nil)
		r.Outcome(o.Class())
		if o.Kind != "error" {
			r.Violation("invalid-accepted", fmt.Sprintf("%s (%s) must be an error, got %s", c.prog, c.what, o.String()), nil)
			return
		}
		r.Held()
		r.Sample("error", map[string]any{"prog": c.prog, "error": o.Err.Error()})
	default:
		// $now / $millis: one instant per evaluation, inside the wall-clock bracket
		prog := `[$millis(), $toMillis($now()), $millis(), ($x := $sum([1..2000]); $millis()), $toMillis($now("[Y0001]-[M01]-[D01]T[H01]:[m01]:[s01].[f001][Z01:01]", "+0530"), "[Y0001]-[M01]-[D01]T[H01]:[m01]:[s01].[f001][Z01:01]")]`
		if rr.Intn(25) == 0 {
			// the clock is only read in inner scopes (blocks, function bodies,
			// callbacks, path steps), with work in between: still one instant
			prog = `[($a := $millis(); $a), ($sum([1..120000]); $millis()), function(){$toMillis($now())}(), $map([1, 2], function($v){($sum([1..60000]); $millis())})[1], {"k": ($millis())}.k, [1].($sum([1..60000]); $toMillis($now()))]`
		}
		want := strings.Count(prog, "$millis()") + strings.Count(prog, "$now(")
		r.Begin(prog, "")
		r.Tag("now-millis")
		r.Nontrivial(fmt.Sprint("now", rr.U64()))
		e, _ := obs.Compile(prog)
		if e == nil {
			r.Violation("now-failed", "program does not compile", nil)
			return
		}
		t0 := time.Now().UnixMilli()
		o := obs.Eval(e, nil)
		t1 := time.Now().UnixMilli()
		r.Outcome(o.Class())
		arr, _ := obs.Normalize(o.Val, nil).([]interface{})
		if o.Kind != "value" || len(arr) != want {
			r.Violation("now-failed", "got "+o.String(), nil)
			return
		}
		first, _ := arr[0].(float64)
		for i, x := range arr {
			if f, ok := x.(float64); !ok || f != first {
				r.Violation("now-not-constant", fmt.Sprintf("within one evaluation $millis()/$now() denote different instants: element %d is %v, element 0 is %v", i, x, arr[0]), nil)
				return
			}
		}
		if int64(first) < t0 || int64(first) > t1 {
			r.Violation("now-outside-bracket", fmt.Sprintf("$millis() = %d but Eval ran between %d and %d", int64(first), t0, t1), nil)
			return
		}
		r.Held()
		r.Sample("now", map[string]any{"millis": int64(first), "eval_entered": t0, "eval_left": t1})
	}
}

func c19SelfCheck() {
	// cross-check the harness's own calendar against Go's on 10k instants
	r := prng.New(7, 0xC19)
	lo := daysFromCivil(1000, 1, 1) * 86400000
	hi := (daysFromCivil(9999, 12, 31) + 1) * 86400000
	for i := 0; i < 10000; i++ {
		ms := lo + int64(r.U64()%uint64(hi-lo))
		off := int64(r.Range(-56, 56)) * 15
		c := civilOf(ms, off)
		t := time.UnixMilli(ms).In(time.FixedZone("x", int(off)*60))
		_, w := t.ISOWeek()
		if int64(t.Year()) != c.Y || int64(t.Month()) != c.M || int64(t.Day()) != c.D || int64(t.Hour()) != c.H || int64(t.Minute()) != c.Mi ||
			int64(t.Second()) != c.S || int64(t.Weekday()) != c.Wd || int64(t.YearDay()) != c.Doy || int64(w) != c.IsoW {
			panic(fmt.Sprintf("C19 harness calendar disagrees with Go's time package at ms=%d off=%d: %+v vs %v", ms, off, c, t))
		}
	}
}

func init() {
	day0 := daysFromCivil(1000, 1, 1)
	dayN := daysFromCivil(9999, 12, 31)
	fw.Register(&fw.Prop{
		ID: "C19", Title: "$fromMillis renders the right calendar fields and $toMillis inverts it",
		Rule: fmt.Sprintf("cases: (a) days from 1000-01-01 to 9999-12-31 (thorough: every one of the %d days at 3 PRNG-chosen times of day; quick: every 97th day plus all month/year boundaries of 400 years, each hour of the day and the boundary milliseconds 00:00:00.000 / 23:59:59.999) with a PRNG-chosen offset from -1400 to +1400 in 15-minute steps: one evaluation renders %d components (Y M D d F W H h P m s f Z z with width, name and ordinal modifiers) and the default picture, and round-trips through $toMillis with the default and with a full custom picture; ", dayN-day0+1, len(c19Components)) +
			"(b) PRNG-generated instants for 15 round-trip pictures built from [Y0001] [M01] [D01] [H01] [m01] [s01] [f001] [Z01:01] on the instants each can represent; (c) 26 unparsable texts, invalid pictures and invalid time zones, plus generated offsets with a minute field of 60..99, that must be errors; (d) $millis()/$now() constancy within one evaluation and inside the wall-clock bracket around Eval. " +
			"Oracle: independent proleptic-Gregorian arithmetic (days-from-civil, ISO-8601 week rule), cross-checked against Go's time package on 10 000 instants at start-up. non-trivial = every case; distinct by (instant, offset)",
		Assumptions: []string{"roman/word presentations, [w], numeric [F1], bare [f], [ZN], [C], [E] are not checked (the statement lists width, name and ordinal modifiers only)", "the wall clock is read only for the $now bracket, where it is the subject of the property"},
		Plan: func(tier string, seed uint64) *fw.Plan {
			var days []int64
			if tier == "thorough" {
				for d := day0; d <= dayN; d++ {
					days = append(days, d)
				}
			} else {
				for d := day0; d <= dayN; d += 97 {
					days = append(days, d)
				}
				for y := int64(1000); y <= 9999; y += 23 {
					for m := int64(1); m <= 12; m++ {
						first := daysFromCivil(y, m, 1)
						days = append(days, first, first-1)
					}
				}
				for _, y := range []int64{1000, 1582, 1600, 1677, 1678, 1700, 1900, 1969, 1970, 2000, 2004, 2015, 2020, 2026, 2100, 2262, 2263, 2400, 9999} {
					for d := daysFromCivil(y, 12, 24); d <= daysFromCivil(y, 12, 31); d++ {
						days = append(days, d)
					}
					for d := daysFromCivil(y, 1, 1); d <= daysFromCivil(y, 1, 8) && y > 1000; d++ {
						days = append(days, d)
					}
					days = append(days, daysFromCivil(y, 2, 28), daysFromCivil(y, 3, 1))
				}
			}
			// the quantifier starts at 1000-01-01 and ends at 9999-12-31
			kept := days[:0]
			for _, d := range days {
				if d >= day0 && d <= dayN {
					kept = append(kept, d)
				}
			}
			days = kept
			per := int64(3)
			nDays := int64(len(days)) * per
			nMisc := int64(6000)
			if tier == "thorough" {
				nMisc = 300000
			}
			return &fw.Plan{N: nDays + nMisc,
				Subspaces: []string{fmt.Sprintf("%d days x %d times of day", len(days), per)},
				Init:      func(r *fw.Rec) { c19SelfCheck() },
				Run: func(i int64, r *fw.Rec) {
					rr := prng.New(seed, 0xC19, uint64(i))
					if i >= nDays {
						c19Misc(r, rr)
						return
					}
					day := days[i/per]
					var tod int64
					switch (i % per) + 3*int64(rr.Intn(2)) {
					case 0:
						tod = int64(rr.Intn(24))*3600000 + int64(rr.Intn(3600000)) // any hour
					case 1:
						tod = []int64{0, 86399999, 43200000, 43199999, 3600000 - 1, 12*3600000 + 30*60000}[rr.Intn(6)]
					case 2:
						tod = int64(rr.Intn(86400000))
					case 3:
						tod = int64(rr.Intn(24)) * 3600000 // on the hour
					case 4:
						tod = int64(rr.Intn(1440))*60000 + 59999
					default:
						tod = int64(rr.Intn(86400)) * 1000
					}
					off := int64(rr.Range(-56, 56)) * 15
					if rr.Intn(4) == 0 {
						off = 0
					}
					if rr.Intn(10) == 0 {
						off = []int64{-30, -15, -45, 30, 15, -60, 840, -840, 345, 765}[rr.Intn(10)]
					}
					ms := day*86400000 + tod - off*60000
					// keep the local date inside years 1000..9999
					if c := civilOf(ms, off); c.Y < 1000 || c.Y > 9999 {
						off = 0
						ms = day*86400000 + tod
					}
					c19Instant(r, ms, off, "day-sweep")
				}}
		},
	})
}
