package props

import "verif/harness/gen"

func genJSON(v interface{}) string { return gen.JSON(v) }
