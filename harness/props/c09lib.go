package props

import (
	"strings"

	"verif/harness/prng"
)

// Arrays and objects as the library's own functions build them (Go slices and
// maps of other types than the ones the JSON decoder produces, of length 0, 1
// and more) placed in every operator position.
var libValues = []string{
	`$split("abc", ",")`, `$split("a,b", ",")`, `$split("", ",")`, `/(b)/("abc").groups`, `/(a)(b)/("abc").groups`, `$match("abc", /(b)/).groups`,
	`$keys({"a":1})`, `$keys({"a":1,"b":2})`, `$keys([{"a":1},{"b":2}])`, `$map(5, function($v,$i,$a){$a})[0]`, `$filter(5, function($v,$i,$a){true})`,
	`$match("ab", /./)`, `$match("a", /./)`, `/a/("a")`, `$zip([1],[2])`, `$zip([1,2],[3,4])[0]`, `$spread({"a":1})`, `$spread({"a":1,"b":2})`, `[1..1]`, `[1..3]`,
	`$reverse($split("a,b", ","))`, `$shuffle($split("a", ","))`, `$sort($keys({"b":1,"a":2}))`, `$distinct($split("a,a", ","))`, `$append($split("a", ","), $keys({"k":1}))`,
	`$each({"a":1}, function($v,$k){$k})`, `$lookup([{"a":1},{"a":2}], "a")`, `$map($split("a,b", ","), function($v,$i,$a){$a})[0]`, `$toMillis("1970-01-01T00:00:00.001Z") ~> $map(function($v,$i,$a){$a})`,
	`$sift({"a":1}, function($v,$k,$o){true}) ~> $keys()`, `$merge([{"a":$split("x", ",")}]).a`, `s.$split(",")`, `$single([$split("p,q", ",")])`,
}

var libShapes = []string{
	`X{"k": $}`, `X{$string($): 1}`, `X{"k": $count($)}`, `X[0]`, `X[-1]`, `X[$ = "a"]`, `X[[0]]`, `X^($)`, `X^(>$string($))`, `X.$`, `X.*`, `X.**`, `X.nothing`, `X[]`, `X.[$]`,
	`X ~> |$|{"z":1}|`, `{"a": X} ~> |a|{"z":1}|`, `{"a": X} ~> |$|{"b": a}, "a"|`, `X = X`, `X != Y`, `X & ""`, `X & Y`, `$count(X)`, `[X]`, `[X, Y]`, `X ~> $map($string)`, `X in X`, `"a" in X`, `-X`,
	`X.{"a": $}`, `{"a": X}.a`, `{"a": X}.a[0]`, `$string(X)`, `$boolean(X)`, `$not(X)`, `$exists(X)`, `$type(X)`, `$append(X, Y)`, `$reverse(X)`, `$sort(X)`, `$distinct(X)`, `$distinct([X, Y, X])`,
	`$join(X)`, `$sum(X)`, `$max(X)`, `$zip(X, Y)`, `$merge(X)`, `$spread(X)`, `$keys(X)`, `$lookup(X, "a")`, `$each(X, function($v){$v})`, `$sift(X, function($v){true})`, `$shuffle(X)`, `$flatten(X)`,
	`$filter(X, function($v){true})`, `$reduce(X, function($a,$b){$a & $b})`, `$single(X, function($v){true})`, `X ? 1 : 2`, `X and Y`, `X < Y`, `X + 1`, `X .. 2`, `[X .. Y]`, `X ~> $count`, `X ~> $string ~> $length`,
	`$map(X, function($v){$v}){"k": $}`, `(X)[0]{"k": $}`, `X@$v.$v`, `X#$i.$i`, `$v := X`, `($v := X; $v{"k": $})`, `($v := X; $v[0])`, `function($x)<a:a>{$x}(X)`, `function($x)<a<s>:a>{$x}(X)`, `function($x)<x+>{$x}(X, Y)`,
	// transformations whose update refers to the object that is being updated
	`{"a": X} ~> |$|{"self": [$]}|`, `{"a": X} ~> |$|{"self": [[$], {"in": $}]}|`, `{"a": X} ~> |$|{"s": [$.a, $]}|`, `{"a": {"b": X}} ~> |a|{"up": [$$, $]}|`, `{"a": X} ~> |$|{"self": $append([], $)}|`,
	`{"a": X} ~> |$|{"self": $reverse([$, 1])}|`, `{"a": X} ~> |$|{"self": $ ~> $map(function($v){$v})}|`, `{"a": X} ~> |$|{"self": $}, "a"|`, `$ ~> |$|{"self": [$], "x": X}|`, `{"a": X} ~> |$|{"self": {"k": [$]}}|`,
	// typed lambdas with legal but unusual signatures, called
	`function($x)<a<>>{$count($x)}(X)`, `function($x)<a<:n>>{$x}(X)`, `function($x)<a<a<s>>>{$x}([X])`, `function($x)<(a)>{$x}(X)`, `function($x)<a?>{$x}(X)`, `function($x)<a<(ns)>+>{$x}(X, Y)`,
	`function($x)<x-:a>{$x}(X)`, `function($x)<a<>+>{$x}(X, Y)`, `function($x, $y)<a<>a<>?>{[$x, $y]}(X)`, `function($x)<a<a<>>>{$x}([X, Y])`, `function($x)<()>{$x}(X)`, `function($x)<a<x>>{$x}(X)`,
	`X{"k": $}{"j": $}`, `[X]{"k": $}`, `[X].$`, `$$.(X)`, `$$.(X){"k": $}`, `X.($ & "!")`, `X[$count($) = 1]`, `$sort(X, function($a,$b){$a > $b})`, `$replace("abc", "b", X[0])`, `$join(X, X[0])`, `$substring(X[0], 0, 1)`,
	`$formatNumber(1, X[0])`, `$pad(X[0], 3)`, `$contains(X[0], Y[0])`, `$number(X)`, `$length(X)`, `$uppercase(X)`, `$base64encode(X)`, `$eval("1", X)`, `$toMillis(X)`, `$fromMillis(X)`, `$abs(X)`, `$power(X, 2)`,
}

func libArrayCase(r *prng.R) (prog, doc, kind string) {
	doc = `{"s":"a,b","t":"é😀 x","n":12.5,"mixed":[{"k":1},{},{"k":"a"},{},{"k":2}],"gaps":[{},{"k":"b"},{},{"k":"a"},{"k":true},{}]}`
	if r.Intn(40) == 0 {
		// ranges whose size does not fit any integer: the size error, not a panic
		prog = r.Pick("[0..1e19]", "[-5e18..5e18]", "[1..1e300]", "[1,2,3][[0..1e19]]", "[-1e19..1e19]", "[9223372036854775807..9223372036854775808]", "$count([0..1e19])", "[1..1e19].($)", "[0..9.3e18]",
			"[-9223372036854775808..9223372036854775807]", "[1e18..1e19]", "[0..1e15]")
		return prog, doc, "library-built-value:huge-range"
	}
	if r.Intn(40) == 0 {
		// pictures far beyond ordinary sizes: an error or a value, never a hang
		n := r.Pick("1", "5", "1e308", "1e-300", "-7.5", "0")
		pic := r.Pick(`$pad("", 309, "0") & "e0"`, `$pad("", 320, "0") & ".0e00"`, `$pad("", 308, "0") & "e0"`, `$pad("", 400, "#") & "0e0"`, `"0." & $pad("", 400, "0") & "e0"`, `$pad("", 350, "0")`, `$pad("", 330, "0") & "%"`, `"0e" & $pad("", 400, "0")`)
		return "$formatNumber(" + n + ", " + pic + ") ~> $length", doc, "library-built-value:huge-picture"
	}
	if r.Intn(12) == 0 {
		// order-by and $sort over keys of mixed types with gaps between them
		prog = r.Pick("mixed^(k)", "mixed^(>k)", "mixed^(k, >k)", "mixed.k^($)", "$sort(mixed.k)", "gaps^(k)", "gaps^(<k).k", "$sort(gaps.k)", "mixed^($string(k))", "mixed^(k).k", "(mixed ~> $append(gaps))^(k)",
			"$sort(mixed, function($l,$r){$l.k > $r.k})", "$sort(gaps, function($l,$r){$l.k > $r.k})", "mixed[k]^(k)", "gaps^(k)[0]", "$reverse(mixed)^(k)", "mixed^(k){$string(k): k}")
		return prog, doc, "library-built-value:mixed-sort-keys"
	}
	x := libValues[r.Intn(len(libValues))]
	y := libValues[r.Intn(len(libValues))]
	sh := libShapes[r.Intn(len(libShapes))]
	if r.Intn(5) == 0 {
		// one shape inside another
		sh = strings.ReplaceAll(libShapes[r.Intn(len(libShapes))], "X", "("+sh+")")
	}
	prog = strings.ReplaceAll(strings.ReplaceAll(sh, "X", x), "Y", y)
	return prog, doc, "library-built-value"
}
