package props

import (
	"fmt"
	"regexp"
	"strings"

	"verif/harness/fw"
	"verif/harness/obs"
	"verif/harness/prng"
)

// C17: regex literals and regex functions agree with the RE2 engine (Go's
// regexp package is the specification named by the property).

type reGen struct {
	r      *prng.R
	groups int
	tags   map[string]bool
}

func (g *reGen) atom(d int) string {
	r := g.r
	switch r.Intn(14) {
	case 0, 1, 2, 3:
		return r.Pick("a", "b", "c")
	case 4:
		g.tags["dot"] = true
		return "."
	case 5:
		g.tags["class"] = true
		return r.Pick("[ab]", "[^a]", "[a-c]", "[/]", "[b/]", "\\d", "\\w", "\\s", "[^\\n]")
	case 6:
		g.tags["escaped-slash"] = true
		return "\\/"
	case 7:
		if d < 3 {
			g.groups++
			g.tags["group"] = true
			return "(" + g.alt(d+1) + ")"
		}
	case 8:
		if d < 3 {
			g.groups++
			g.tags["optional-group"] = true
			return "(" + g.alt(d+1) + ")?"
		}
	case 9:
		if d < 3 {
			g.tags["non-capturing"] = true
			return "(?:" + g.alt(d+1) + ")"
		}
	case 10:
		g.tags["anchor"] = true
		return r.Pick("^", "$", "\\b")
	case 11:
		return "é"
	case 12:
		return "\\n"
	case 13:
		// an escaped metacharacter (brackets that are not balanced, a backslash
		// that may come last before the closing slash) or a class holding one
		g.tags["escaped-metacharacter"] = true
		return r.Pick("\\(", "\\)", "\\[", "\\]", "\\{", "\\}", "\\\\", "\\.", "\\*", "\\+", "\\?", "\\|", "\\^", "\\$", "[(]", "[)]", "[\\]]", "[\\\\]", "[{]", "[}(]")
	}
	return r.Pick("a", "b")
}

func (g *reGen) piece(d int) string {
	a := g.atom(d)
	switch g.r.Intn(9) {
	case 0:
		g.tags["star"] = true
		return a + "*"
	case 1:
		g.tags["plus"] = true
		return a + "+"
	case 2:
		g.tags["opt"] = true
		return a + "?"
	case 3:
		g.tags["counted"] = true
		return a + g.r.Pick("{2}", "{1,2}", "{0,1}", "{2,}")
	case 4:
		g.tags["lazy"] = true
		return a + g.r.Pick("*?", "+?")
	}
	return a
}

func (g *reGen) seq(d int) string {
	n := g.r.Range(1, 3)
	var sb strings.Builder
	for i := 0; i < n; i++ {
		sb.WriteString(g.piece(d))
	}
	return sb.String()
}

func (g *reGen) alt(d int) string {
	s := g.seq(d)
	if g.r.Intn(4) == 0 {
		g.tags["alternation"] = true
		s += "|" + g.seq(d)
	}
	return s
}

var c17SubjAlpha = []string{"a", "b", "c", "/", "\n", "é", "a", "b", "A", "(", ")", "[", "]", "\\", "{", ".", "a", "b"}

func (g *reGen) subject() string {
	n := g.r.Intn(13)
	var sb strings.Builder
	for i := 0; i < n; i++ {
		sb.WriteString(c17SubjAlpha[g.r.Intn(len(c17SubjAlpha))])
	}
	return sb.String()
}

var c17Templates = []string{"$0", "[$0]", "$1", "$2$1", "$$", "$", "x$", "$10", "$12", "$3", "<$1|$2>", "$a", "$$1", "$01", "", "é$0é", "$1$1", "$9", "$0$0", "$ 1",
	"$99999999999999999999", "$1" + "0000000000000000000000000", "$18446744073709551617", "$9223372036854775808x", "[$2" + "99999999999999999999]"}

// expandTemplate is a direct implementation of the statement's template rule.
func expandTemplate(t string, match string, groups []string) string {
	var sb strings.Builder
	for i := 0; i < len(t); {
		c := t[i]
		if c != '$' {
			sb.WriteByte(c)
			i++
			continue
		}
		// '$'
		if i+1 >= len(t) {
			sb.WriteByte('$')
			i++
			continue
		}
		n := t[i+1]
		switch {
		case n == '$':
			sb.WriteByte('$')
			i += 2
		case n < '0' || n > '9':
			sb.WriteByte('$')
			i++
		case n == '0':
			sb.WriteString(match)
			i += 2
		default:
			j := i + 1
			for j < len(t) && t[j] >= '0' && t[j] <= '9' {
				j++
			}
			digits := t[i+1 : j]
			used := 0
			for k := len(digits); k >= 1; k-- {
				num := 0
				for _, d := range digits[:k] {
					if num < 1<<40 { // never overflow: anything this large is not a group
						num = num*10 + int(d-'0')
					}
				}
				if num >= 1 && num <= len(groups) {
					sb.WriteString(groups[num-1])
					used = k
					break
				}
			}
			if used == 0 {
				used = 1 // a group that does not exist is empty
			}
			i += 1 + used
		}
	}
	return sb.String()
}

type reMatch struct {
	text       string
	start, end int
	groups     []string
}

func allMatches(re *regexp.Regexp, s string) []reMatch {
	idx := re.FindAllStringSubmatchIndex(s, -1)
	out := make([]reMatch, len(idx))
	for i, m := range idx {
		rm := reMatch{text: s[m[0]:m[1]], start: m[0], end: m[1]}
		for j := 1; j < len(m)/2; j++ {
			if m[2*j] >= 0 {
				rm.groups = append(rm.groups, s[m[2*j]:m[2*j+1]])
			} else {
				rm.groups = append(rm.groups, "")
			}
		}
		out[i] = rm
	}
	return out
}

func init() {
	fw.Register(&fw.Prop{
		ID: "C17", Title: "Regex literals and regex functions agree with the regular-expression engine",
		Rule: "cases: PRNG-generated patterns from a grammar (literals, ., classes incl. [/], \\/ , capturing / nested / optional / non-capturing groups, alternation, * + ? {m,n} lazy quantifiers, anchors) x flag subsets of i m s, subjects of <=12 characters over {a b c / LF é A} (empty matches and overlaps frequent); " +
			"programs: $match with limits -1..4 and absent, $contains, $split with limits, $replace with 25 templates ($0..$12, $$, lone $, text, group numbers of 20 and more digits) and limits, $replace with replacement functions (string-returning, non-string, failing), literal application /p/(s) walking the next() chain, and empty / invalid patterns. " +
			"Oracle: regexp.FindAllStringSubmatchIndex on the same pattern plus a direct implementation of the template rule. non-trivial = at least one match; distinct by (program, input)",
		Assumptions: []string{"Go's regexp package is the engine named by the property and is trusted", "patterns are generated with balanced brackets (the lexer finds the closing / by bracket depth)"},
		Plan: func(tier string, seed uint64) *fw.Plan {
			n := int64(30000)
			if tier == "thorough" {
				n = 1000000
			}
			return &fw.Plan{N: n, Run: func(i int64, r *fw.Rec) { c17Run(i, seed, r) }}
		},
	})
}

func c17Run(i int64, seed uint64, r *fw.Rec) {
	rr := prng.New(seed, 0xC17, uint64(i))
	g := &reGen{r: rr, tags: map[string]bool{}}
	if i%50 == 0 {
		c17Invalid(rr, r)
		return
	}
	if i%25 == 2 {
		c17Related(rr, r)
		return
	}
	pat := g.alt(0)
	if g.r.Intn(8) == 0 {
		// the same text matched through different groups: an assertion decides
		// which alternative (and therefore which group) takes each occurrence
		t := g.r.Pick("a", "b", "ab", "a+", "[ab]")
		g.groups = 2
		g.tags["same-text-different-groups"] = true
		switch g.r.Intn(4) {
		case 0:
			pat = "^(" + t + ")|(" + t + ")"
		case 1:
			pat = "(" + t + ")$|(" + t + ")"
		case 2:
			pat = "\\b(" + t + ")|(" + t + ")"
		default:
			pat = "(" + t + ")(?:c)|(" + t + ")"
		}
	}
	anchoredLiteral := false
	if g.r.Intn(12) == 0 {
		// a literal anchored at one or both ends: it matches only there, not
		// wherever the literal occurs
		t := g.r.Pick("a", "b", "ab", "abc", "a{2}", "(?:ab)", "b/", "é")
		t = strings.ReplaceAll(t, "/", "\\/")
		g.groups = 0
		g.tags["anchored-literal"] = true
		anchoredLiteral = true
		pat = []string{"^" + t + "$", "^" + t, t + "$", "^" + t + "$"}[g.r.Intn(4)]
	}
	flags := rr.Pick("", "", "i", "m", "s", "im", "is", "ms", "ims")
	s := g.subject()
	if anchoredLiteral && g.r.Bool() {
		// ... in a subject that has the literal in the middle
		s = g.r.Pick("b", "c", "ab", "\n", "") + g.r.Pick("a", "b", "ab", "abc", "aa", "b/", "é") + g.r.Pick("a", "c", "x", "\n", "")
	}
	goPat := pat
	if flags != "" {
		goPat = "(?" + flags + ")" + pat
	}
	re, err := regexp.Compile(goPat)
	lit := "/" + pat + "/" + flags
	doc := O{"s": s}
	docJSON := genJSON(doc)
	if err != nil {
		// the engine rejects the pattern: must be a compile error
		r.Begin(lit, docJSON)
		r.Tag("invalid-pattern")
		_, co := obs.Compile("$match(s, " + lit + ")")
		r.Outcome(co.Class())
		if co.Kind != "compile-error" {
			r.Violation("invalid-pattern-accepted", "the engine rejects this pattern ("+err.Error()+") but it compiled", nil)
			return
		}
		r.Held()
		return
	}
	ms := allMatches(re, s)
	var prog string
	var want interface{}
	wantErr, wantUndef := false, false
	tag := ""
	matchObj := func(m reMatch) interface{} {
		return map[string]interface{}{"match": m.text, "index": float64(m.start), "groups": strsToIface(m.groups)}
	}
	limited := func(lim int) []reMatch {
		if lim >= 0 && lim < len(ms) {
			return ms[:lim]
		}
		return ms
	}
	switch k := rr.Intn(10); k {
	case 0, 1:
		tag = "match"
		lim := rr.Range(-1, 5)
		var sel []reMatch
		if lim == 5 {
			prog = "$match(s, " + lit + ")"
			sel = ms
		} else {
			prog = fmt.Sprintf("$match(s, %s, %d)", lit, lim)
			if lim < 0 {
				wantErr = true
			}
			sel = limited(lim)
		}
		arr := make([]interface{}, len(sel))
		for j, m := range sel {
			arr[j] = matchObj(m)
		}
		want = arr
	case 2:
		tag = "contains"
		prog = "$contains(s, " + lit + ")"
		want = len(ms) > 0
	case 3:
		tag = "split"
		lim := rr.Range(-1, 5)
		parts := []string{}
		pos := 0
		for _, m := range ms {
			parts = append(parts, s[pos:m.start])
			pos = m.end
		}
		parts = append(parts, s[pos:])
		if lim == 5 {
			prog = "$split(s, " + lit + ")"
		} else {
			prog = fmt.Sprintf("$split(s, %s, %d)", lit, lim)
			if lim < 0 {
				wantErr = true
			} else if lim < len(parts) {
				parts = parts[:lim]
			}
		}
		want = strsToIface(parts)
	case 4, 5, 6:
		tag = "replace-template"
		t := c17Templates[rr.Intn(len(c17Templates))]
		lim := rr.Range(-1, 5)
		sel := ms
		if lim == 5 {
			prog = fmt.Sprintf("$replace(s, %s, %s)", lit, q(t))
		} else {
			prog = fmt.Sprintf("$replace(s, %s, %s, %d)", lit, q(t), lim)
			if lim < 0 {
				wantErr = true
			}
			sel = limited(lim)
		}
		var sb strings.Builder
		pos := 0
		for _, m := range sel {
			sb.WriteString(s[pos:m.start])
			sb.WriteString(expandTemplate(t, m.text, m.groups))
			pos = m.end
		}
		sb.WriteString(s[pos:])
		want = sb.String()
	case 7:
		tag = "replace-function"
		switch rr.Intn(4) {
		case 0:
			prog = fmt.Sprintf(`$replace(s, %s, function($m){"<" & $m.match & ":" & $m.index & ":" & $count($m.groups) & ">"})`, lit)
			var sb strings.Builder
			pos := 0
			for _, m := range ms {
				sb.WriteString(s[pos:m.start])
				sb.WriteString(fmt.Sprintf("<%s:%d:%d>", m.text, m.start, len(m.groups)))
				pos = m.end
			}
			sb.WriteString(s[pos:])
			want = sb.String()
		case 1:
			prog = fmt.Sprintf(`$replace(s, %s, function($m){$uppercase($m.match)})`, lit)
			var sb strings.Builder
			pos := 0
			for _, m := range ms {
				sb.WriteString(s[pos:m.start])
				sb.WriteString(strings.ToUpper(m.text))
				pos = m.end
			}
			sb.WriteString(s[pos:])
			want = sb.String()
		case 2:
			prog = fmt.Sprintf(`$replace(s, %s, function($m){42})`, lit)
			want = s
			wantErr = len(ms) > 0
		default:
			prog = fmt.Sprintf(`$replace(s, %s, function($m){$error("boom")})`, lit)
			want = s
			wantErr = len(ms) > 0
		}
	default:
		tag = "literal-application"
		// walk the chain of next() functions
		prog = fmt.Sprintf(`($walk := function($m, $acc){$exists($m) ? $walk($m.next(), $append($acc, [$m.match & "@" & $m.start & "-" & $m.end & "#" & $count($m.groups)])) : $acc}; $walk(%s(s), []))`, lit)
		arr := make([]interface{}, len(ms))
		for j, m := range ms {
			arr[j] = fmt.Sprintf("%s@%d-%d#%d", m.text, m.start, m.end, len(m.groups))
		}
		want = arr
		if len(ms) == 0 {
			wantUndef = true
		}
		if len(ms) > 40 {
			return
		}
	}
	r.Begin(prog, docJSON)
	r.Tag("fn:" + tag)
	for t := range g.tags {
		r.Tag("re:" + t)
	}
	if flags != "" {
		r.Tag("flags")
	}
	if len(ms) > 0 {
		r.Nontrivial(prog + "\x00" + docJSON)
	}
	o := obs.Run(prog, decodeDoc(docJSON))
	r.Outcome(o.Class())
	if wantErr {
		if o.Kind != "error" {
			r.Violation("expected-error:"+tag, "expected an error, got "+o.String(), nil)
			return
		}
		r.Held()
		return
	}
	wn := obs.Normalize(want, nil)
	if o.Kind == "undefined" {
		if a, ok := wn.([]interface{}); (ok && len(a) == 0) || wantUndef {
			r.Held()
			return
		}
	}
	if o.Kind != "value" {
		r.Violation("mismatch:"+tag, fmt.Sprintf("got %s, the engine says %s (pattern %q subject %q)", o.String(), obs.ShowNorm(wn), goPat, s), nil)
		return
	}
	got := obs.Normalize(o.Val, nil)
	if tag == "literal-application" {
		if _, ok := got.([]interface{}); !ok {
			got = []interface{}{got}
		}
	}
	if !obs.Equal(got, wn) {
		r.Violation("mismatch:"+tag, fmt.Sprintf("got %s, the engine says %s (pattern %q subject %q)", obs.ShowNorm(got), obs.ShowNorm(wn), goPat, s), nil)
		return
	}
	r.Held()
	r.Sample(tag, map[string]any{"prog": prog, "input": docJSON, "result": obs.ShowNorm(got), "matches": len(ms)})
}

func c17Invalid(rr *prng.R, r *fw.Rec) {
	bad := []string{"//", "//i", "//m", "//s", "//ims", "//mi", "/(/", "/a)/", "/[a/", "/a{2,1}/", "/*a/", "/+/", "/a**/", "/(?P<n/", "/\\k/", "/(?=a)/", "/a\\/", "/(?i/"}
	p := bad[rr.Intn(len(bad))]
	prog := "$match(\"abc\", " + p + ")"
	r.Begin(prog, "")
	r.Tag("invalid-or-empty-pattern")
	r.Nontrivial(prog)
	_, co := obs.Compile(prog)
	r.Outcome(co.Class())
	if co.Kind == "panic" {
		r.Violation("panic:Compile", co.String(), nil)
		return
	}
	if co.Kind != "compile-error" {
		r.Violation("bad-pattern-accepted", "an empty or invalid pattern compiled: "+p, nil)
		return
	}
	r.Held()
	r.Sample("invalid", map[string]any{"prog": prog, "error": co.Err.Error()})
}


// c17Related: two literals of which one is a prefix of the other, applied one
// after the other (in one process) to subjects chosen so that pattern text +
// subject is the same string both times: what the first evaluation found must
// not show through in the second.
func c17Related(rr *prng.R, r *fw.Rec) {
	n := rr.Range(3, 7)
	var sb strings.Builder
	for k := 0; k < n; k++ {
		sb.WriteString(rr.Pick("a", "b", "a", "c"))
	}
	w := sb.String()
	i := rr.Range(1, n-2)
	j := rr.Range(i+1, n-1)
	pairs := [][2]string{{w[:i], w[i:]}, {w[:j], w[j:]}}
	if rr.Bool() {
		pairs[0], pairs[1] = pairs[1], pairs[0]
	}
	fn := rr.Pick("contains", "match", "split", "replace")
	desc := fmt.Sprintf("$%s with /%s/ on %q, then /%s/ on %q", fn, pairs[0][0], pairs[0][1], pairs[1][0], pairs[1][1])
	r.Begin(desc, "")
	r.Tag("prefix-related-literals")
	r.Nontrivial(desc)
	for _, p := range pairs {
		re := regexp.MustCompile(p[0])
		ms := allMatches(re, p[1])
		var prog string
		var want interface{}
		switch fn {
		case "contains":
			prog, want = "$contains(s, /"+p[0]+"/)", len(ms) > 0
		case "match":
			prog = "$count($match(s, /" + p[0] + "/))"
			want = float64(len(ms))
		case "split":
			prog = "$join($split(s, /" + p[0] + "/), \"|\")"
			want = strings.Join(re.Split(p[1], -1), "|")
		default:
			prog = "$replace(s, /" + p[0] + "/, \"-\")"
			want = re.ReplaceAllString(p[1], "-")
		}
		r.Evals(1)
		o := obs.Run(prog, map[string]interface{}{"s": p[1]})
		if o.Kind != "value" || !obs.Equal(obs.Normalize(o.Val, nil), want) {
			r.Violation("mismatch:after-a-related-evaluation", fmt.Sprintf("%s on %q gave %s, the engine says %v (sequence: %s)", prog, p[1], o.String(), want, desc), nil)
			return
		}
	}
	r.Outcome("compared")
	r.Held()
}
