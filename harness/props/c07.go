package props

import (
	"fmt"
	"reflect"

	jsonata "github.com/blues/jsonata-go"

	"verif/harness/fw"
	"verif/harness/gen"
	"verif/harness/jast"
	"verif/harness/judge"
	"verif/harness/obs"
	"verif/harness/prng"
	"verif/harness/refeval"
)

// C07: inputs are never modified; transform returns a modified copy.

// aliasedDoc builds a document in which the same Go map/slice is referenced
// from two places, so that a write through one path shows at the other.
func aliasedDoc(r *prng.R) interface{} {
	shared := map[string]interface{}{"k": "x", "v": float64(r.Range(1, 5)), "b": []interface{}{3.0, 1.0, 2.0}}
	sharedArr := []interface{}{map[string]interface{}{"k": "x", "v": 2.0}, map[string]interface{}{"k": "y", "v": 1.0}, shared}
	// two arrays of the caller that overlap in memory: "nums" and "strs" are the
	// first items of longer arrays the caller also holds ("numsAll", "strsAll"),
	// so whatever extends "nums" in place writes into "numsAll"
	numsAll := []interface{}{3.0, 3.0, 1.0, 2.0, 1.0, 4.0, 9.0, 8.0}
	strsAll := []interface{}{"b", "b", "a", "c", "z"}
	return map[string]interface{}{
		"numsAll": numsAll,
		"strsAll": strsAll,
		"a":    shared,
		"c":    map[string]interface{}{"a": shared, "b": sharedArr},
		"arr":  sharedArr,
		// duplicates followed by new values: an in-place $distinct would shift them
		"nums": numsAll[:6],
		"strs": strsAll[:4],
		"nul":  nil,
		"e":    map[string]interface{}{},
		"holes": []interface{}{map[string]interface{}{}, map[string]interface{}{"k": "x"}, map[string]interface{}{}, []interface{}{}},
		"ea":   []interface{}{},
		"b":    map[string]interface{}{"c": "low", "d": []interface{}{[]interface{}{1.0, 2.0}, []interface{}{3.0}}},
		// objects below an array that is itself an item of an array (a table of rows)
		"m":    []interface{}{spare([]interface{}{3.0, 1.0, 2.0, 1.0}), spare([]interface{}{9.0, 8.0})},
		"rows": []interface{}{[]interface{}{map[string]interface{}{"k": "x", "v": 1.0}}, []interface{}{map[string]interface{}{"k": "y", "v": 2.0}, map[string]interface{}{"k": "x", "v": 3.0}}},
	}
}

type c07Gen struct {
	r    *prng.R
	tags map[string]bool
}

func (g *c07Gen) arrPath() jast.Node {
	return &jast.Path{Steps: [][]jast.Node{
		{&jast.Name{V: "nums"}}, {&jast.Name{V: "strs"}}, {&jast.Name{V: "arr"}}, {&jast.Name{V: "a"}, &jast.Name{V: "b"}},
		{&jast.Name{V: "c"}, &jast.Name{V: "b"}}, {&jast.Name{V: "b"}, &jast.Name{V: "d"}}, {&jast.Var{Name: "reg"}, &jast.Name{V: "list"}}, {&jast.Name{V: "ea"}},
	}[g.r.Intn(8)]}
}

// mutator: functions that would reorder/extend their argument if they worked in place
func (g *c07Gen) mutator() jast.Node {
	r := g.r
	x := g.arrPath()
	switch r.Intn(14) {
	case 12, 13:
		// a row of a table (an array inside an array) selected by a predicate and
		// then sorted, reversed, ...: the row belongs to the caller
		g.tags["row-of-a-table"] = true
		row := &jast.Pred{X: &jast.Name{V: "m"}, Filters: []jast.Node{&jast.Num{V: float64(r.Intn(2))}}}
		var rowN jast.Node = row
		if r.Intn(3) == 0 {
			rowN = &jast.Path{Steps: []jast.Node{&jast.Var{Name: "reg"}, &jast.Pred{X: &jast.Name{V: "m"}, Filters: []jast.Node{&jast.Num{V: 0}}}}}
		}
		switch r.Intn(5) {
		case 0:
			return &jast.Sort{X: rowN, Terms: []jast.SortTerm{{Dir: r.Pick("", ">"), X: &jast.Var{Name: ""}}}}
		case 1:
			return call("sort", rowN)
		case 2:
			return call("reverse", rowN)
		case 3:
			return call("append", rowN, &jast.Num{V: 7})
		}
		return call("distinct", rowN)
	case 0:
		g.tags["$sort"] = true
		return call("sort", x)
	case 1:
		g.tags["$sort-fn"] = true
		return call("sort", x, lam([]string{"l", "r"}, &jast.Bin{Op: ">", L: call("string", v("l")), R: call("string", v("r"))}))
	case 2:
		g.tags["$reverse"] = true
		return call("reverse", x)
	case 3:
		g.tags["$append"] = true
		return call("append", x, g.arrPath())
	case 4:
		g.tags["$shuffle"] = true
		return call("shuffle", x)
	case 5:
		g.tags["$zip"] = true
		return call("zip", x, g.arrPath())
	case 6:
		g.tags["$merge"] = true
		return call("merge", &jast.Array{Items: []jast.Node{&jast.Name{V: "a"}, &jast.Path{Steps: []jast.Node{&jast.Name{V: "c"}, &jast.Name{V: "a"}}}, lit(O{"k": "z", "new": 1.0})}})
	case 7:
		g.tags["$distinct"] = true
		return call("distinct", x)
	case 8:
		g.tags["order-by"] = true
		return &jast.Sort{X: &jast.Name{V: "arr"}, Terms: []jast.SortTerm{{Dir: r.Pick("", "<", ">"), X: &jast.Name{V: r.Pick("v", "k")}}}}
	case 9:
		g.tags["order-by-$"] = true
		return &jast.Sort{X: &jast.Name{V: r.Pick("nums", "strs")}, Terms: []jast.SortTerm{{Dir: r.Pick("<", ">"), X: &jast.Var{Name: ""}}}}
	case 10:
		g.tags["grouping"] = true
		return &jast.Group{X: &jast.Name{V: "arr"}, Pairs: [][2]jast.Node{{&jast.Name{V: "k"}, &jast.Name{V: "v"}}}}
	}
	g.tags["$map-transform"] = true
	return call("map", &jast.Name{V: r.Pick("arr", "holes", "holes")}, g.transform())
}

func (g *c07Gen) pattern() jast.Node {
	r := g.r
	switch r.Intn(14) {
	case 12, 13:
		// a pattern that does not start with a variable but reaches the input
		// (or a registered variable) further in: what it selects is not the copy's
		g.tags["pattern:relative-reaching-outside"] = true
		out := []jast.Node{
			&jast.Path{Steps: []jast.Node{&jast.Var{Name: "$"}, &jast.Name{V: "a"}}},
			&jast.Var{Name: "reg"}, &jast.Var{Name: "v"},
			&jast.Path{Steps: []jast.Node{&jast.Var{Name: "$"}, &jast.Name{V: "arr"}}},
		}[r.Intn(4)]
		switch r.Intn(4) {
		case 0:
			return &jast.Path{Steps: []jast.Node{&jast.Name{V: r.Pick("a", "arr", "c")}, &jast.Block{Exprs: []jast.Node{out}}}}
		case 1:
			return &jast.Block{Exprs: []jast.Node{out}}
		case 2:
			return &jast.Call{Fn: &jast.Var{Name: "lookup"}, Args: []jast.Node{&jast.Var{Name: "$"}, &jast.Str{V: r.Pick("a", "c")}}}
		}
		return &jast.Array{Items: []jast.Node{&jast.Var{Name: ""}, out}}
	case 0:
		g.tags["pattern:$"] = true
		return &jast.Var{Name: ""}
	case 1:
		g.tags["pattern:$$"] = true
		return &jast.Var{Name: "$"}
	case 2:
		g.tags["pattern:$v"] = true
		return &jast.Var{Name: "v"}
	case 3:
		g.tags["pattern:**"] = true
		return &jast.Desc{}
	case 4:
		g.tags["pattern:*"] = true
		return &jast.Wild{}
	case 5:
		g.tags["pattern:pred"] = true
		return &jast.Path{Steps: []jast.Node{&jast.Pred{X: &jast.Name{V: "arr"}, Filters: []jast.Node{&jast.Bin{Op: "=", L: &jast.Name{V: "k"}, R: &jast.Str{V: "x"}}}}}}
	case 6:
		g.tags["pattern:a.b"] = true
		return &jast.Path{Steps: []jast.Node{&jast.Name{V: "c"}, &jast.Name{V: "a"}}}
	case 7:
		g.tags["pattern:$$.a"] = true
		return &jast.Path{Steps: []jast.Node{&jast.Var{Name: "$"}, &jast.Name{V: "a"}}}
	case 8:
		g.tags["pattern:$reg"] = true
		return &jast.Var{Name: "reg"}
	case 9:
		g.tags["pattern:missing"] = true
		return &jast.Name{V: "nothing"}
	}
	return &jast.Name{V: r.Pick("a", "arr", "c", "e", "b", "rows", "rows")}
}

func (g *c07Gen) update() jast.Node {
	r := g.r
	switch r.Intn(12) {
	case 11:
		// the object itself, handed back by a library function in one of its own
		// array types (the whole-array argument of $map)
		g.tags["update:self-through-library-array"] = true
		return obj("self", call("map", &jast.Var{Name: ""}, lam([]string{"v", "i", "a"}, v("a"))), "n", &jast.Num{V: 1})
	case 10:
		// several members that are (or hold) the object itself: each must be a
		// copy of the object as it was before the update, whatever the order
		g.tags["update:self-twice"] = true
		self := &jast.Var{Name: ""}
		return obj("s1", self, "s2", self, "arr", &jast.Array{Items: []jast.Node{&jast.Array{Items: []jast.Node{self}}}}, "n", &jast.Num{V: 1})
	case 9:
		// a function-valued member must arrive in the result as the function
		g.tags["update:function-member"] = true
		return obj("f", &jast.Lambda{Params: []string{"x"}, Body: &jast.Bin{Op: "+", L: &jast.Var{Name: "x"}, R: &jast.Num{V: 1}}}, "k", &jast.Str{V: "new"})
	case 0:
		g.tags["update:non-object"] = true
		return []jast.Node{&jast.Num{V: 1}, &jast.Str{V: "s"}, lit(A{1.0}), &jast.Bool{V: true}}[r.Intn(4)]
	case 1:
		g.tags["update:computed"] = true
		return obj("sum", &jast.Bin{Op: "+", L: &jast.Name{V: "v"}, R: &jast.Num{V: 10}}, "k", &jast.Bin{Op: "&", L: &jast.Name{V: "k"}, R: &jast.Str{V: "!"}})
	case 2:
		g.tags["update:self"] = true
		return obj("self", obj("deep", &jast.Name{V: "k"}), "copy", &jast.Path{Steps: []jast.Node{&jast.Var{Name: ""}, &jast.Name{V: "b"}}})
	case 3:
		g.tags["update:missing"] = true
		return &jast.Name{V: "nothing"}
	case 4:
		g.tags["update:empty"] = true
		return lit(O{})
	case 5:
		g.tags["update:nested-transform"] = true
		return obj("inner", &jast.Apply{L: &jast.Var{Name: ""}, R: &jast.Transform{Pattern: &jast.Var{Name: ""}, Update: lit(O{"t": 1.0})}})
	}
	return lit(O{"x": 1.0, "k": "new"})
}

func (g *c07Gen) delete() jast.Node {
	r := g.r
	switch r.Intn(9) {
	case 8:
		// names that depend on the object they are deleted from: evaluated for
		// every matched object, not once
		g.tags["delete:depends-on-the-object"] = true
		cond := &jast.Cond{If: &jast.Bin{Op: "=", L: &jast.Name{V: "k"}, R: &jast.Str{V: "x"}}, Then: &jast.Str{V: "v"}, Else: &jast.Str{V: "k"}}
		if r.Bool() {
			return &jast.Array{Items: []jast.Node{cond, &jast.Str{V: "zz"}}}
		}
		return &jast.Array{Items: []jast.Node{&jast.Cond{If: &jast.Bin{Op: ">", L: &jast.Name{V: "v"}, R: &jast.Num{V: 1}}, Then: &jast.Str{V: "k"}, Else: &jast.Str{V: "b"}}}}
	case 0, 1, 2:
		return nil
	case 3:
		g.tags["delete:array"] = true
		return lit(A{"k", "zz"})
	case 4:
		g.tags["delete:non-strings"] = true
		return []jast.Node{&jast.Num{V: 1}, lit(A{"k", 1.0}), &jast.Bool{V: true}, lit(O{"a": 1.0})}[r.Intn(4)]
	case 5:
		g.tags["delete:missing"] = true
		return &jast.Name{V: "nothing"}
	}
	g.tags["delete:string"] = true
	return &jast.Str{V: r.Pick("k", "v", "b", "nope")}
}

func (g *c07Gen) transform() jast.Node {
	return &jast.Transform{Pattern: g.pattern(), Update: g.update(), Delete: g.delete()}
}

func (g *c07Gen) transformProgram() jast.Node {
	r := g.r
	t := g.transform()
	var subject jast.Node
	constructed := false
	switch r.Intn(9) {
	case 8:
		// a value built by the program: it holds what JSON cannot carry (the null
		// literal, a function) and the copy must still be equal to it
		g.tags["subject:constructed-with-null-and-function"] = true
		constructed = true
		subject = obj("k", &jast.Str{V: "x"}, "v", &jast.Num{V: 2}, "n", &jast.Null{}, "g", &jast.Lambda{Params: []string{"x"}, Body: &jast.Bin{Op: "*", L: &jast.Var{Name: "x"}, R: &jast.Num{V: 3}}},
			"b", obj("n", &jast.Null{}, "k", &jast.Str{V: "y"}),
			// arrays as the library hands them out ([]string, Go integers)
			"sp", call("split", &jast.Str{V: "p,q"}, &jast.Str{V: ","}), "cnt", call("count", lit(A{1.0, 2.0})),
			// a function that an array function has wrapped into an array
			"fs", call(r.Pick("shuffle", "zip", "append"), &jast.Lambda{Params: []string{"x"}, Body: &jast.Bin{Op: "+", L: &jast.Var{Name: "x"}, R: &jast.Num{V: 5}}}))
	case 0:
		subject = &jast.Var{Name: ""}
	case 1:
		subject = &jast.Name{V: "a"}
	case 2:
		subject = &jast.Name{V: "arr"}
	case 3:
		subject = &jast.Name{V: "c"}
	case 4:
		g.tags["subject:non-object"] = true
		subject = []jast.Node{&jast.Num{V: 1}, &jast.Str{V: "s"}, &jast.Name{V: "nothing"}, &jast.Bool{V: false}}[r.Intn(4)]
	case 5:
		subject = &jast.Var{Name: "reg"}
	case 6:
		// empty and tiny containers taken from the input: a "nothing to copy"
		// shortcut in the transform would hand back the caller's own object
		g.tags["subject:empty-or-tiny-container"] = true
		subject = []jast.Node{&jast.Name{V: "e"}, &jast.Name{V: "ea"}, &jast.Name{V: "holes"}, &jast.Path{Steps: []jast.Node{&jast.Name{V: "b"}, &jast.Name{V: "d"}}},
			&jast.Path{Steps: []jast.Node{&jast.Var{Name: "reg"}, &jast.Name{V: "o"}}}, &jast.Path{Steps: []jast.Node{&jast.Name{V: "a"}, &jast.Name{V: "b"}}}}[r.Intn(6)]
	default:
		subject = &jast.Var{Name: ""}
	}
	var e jast.Node
	switch r.Intn(8) {
	case 6, 7:
		// the transform ends a longer chain: the stage before it hands on objects
		// that exist elsewhere (in the input), they are not the chain's to modify
		g.tags["apply:after-a-stage-that-hands-on-existing-objects"] = true
		always := &jast.Lambda{Params: []string{"x"}, Body: &jast.Bool{V: true}}
		stage := []jast.Node{
			&jast.Lambda{Params: []string{"x"}, Body: &jast.Var{Name: "x"}}, &jast.Var{Name: "reverse"}, &jast.Var{Name: "distinct"},
			&jast.Call{Fn: &jast.Var{Name: "filter"}, Args: []jast.Node{always}}, &jast.Call{Fn: &jast.Var{Name: "append"}, Args: []jast.Node{&jast.Array{}}},
			&jast.Call{Fn: &jast.Var{Name: "lookup"}, Args: []jast.Node{&jast.Str{V: "a"}}}, &jast.Call{Fn: &jast.Var{Name: "map"}, Args: []jast.Node{&jast.Lambda{Params: []string{"x"}, Body: &jast.Var{Name: "x"}}}},
			&jast.Call{Fn: &jast.Var{Name: "sort"}, Args: []jast.Node{&jast.Lambda{Params: []string{"l", "r"}, Body: &jast.Bool{V: false}}}}, &jast.Lambda{Params: []string{"x"}, Body: &jast.Pred{X: &jast.Array{Items: []jast.Node{&jast.Var{Name: "x"}}}, Filters: []jast.Node{&jast.Num{V: 0}}}},
			&jast.Call{Fn: &jast.Var{Name: "sift"}, Args: []jast.Node{always}}, &jast.Call{Fn: &jast.Var{Name: "single"}, Args: []jast.Node{always}},
		}[r.Intn(11)]
		e = &jast.Apply{L: &jast.Apply{L: subject, R: stage}, R: t}
		if r.Intn(3) == 0 {
			e = &jast.Apply{L: &jast.Apply{L: &jast.Apply{L: subject, R: &jast.Lambda{Params: []string{"x"}, Body: &jast.Var{Name: "x"}}}, R: stage}, R: t}
		}
	case 0:
		g.tags["apply:direct-call"] = true
		e = &jast.Call{Fn: &jast.Block{Exprs: []jast.Node{t}}, Args: []jast.Node{subject}}
	case 1:
		g.tags["apply:chain-of-two"] = true
		e = &jast.Apply{L: &jast.Apply{L: subject, R: t}, R: g.transform()}
	case 2:
		g.tags["apply:$map"] = true
		e = call("map", &jast.Array{Items: []jast.Node{subject, &jast.Name{V: "a"}}}, t)
	case 3:
		g.tags["apply:wrong-arity"] = true
		e = &jast.Call{Fn: &jast.Block{Exprs: []jast.Node{t}}, Args: []jast.Node{subject, &jast.Num{V: 1}}}
	default:
		g.tags["apply:~>"] = true
		e = &jast.Apply{L: subject, R: t}
	}
	// report the transform result together with what the original looks like afterwards
	res := &jast.Array{Items: []jast.Node{&jast.Array{Items: []jast.Node{e}}, &jast.Array{Items: []jast.Node{&jast.Var{Name: "$"}}}}}
	if constructed {
		// the untouched members of the copy: null is still null, the function still callable
		res.Items = append(res.Items, &jast.Array{Items: []jast.Node{
			call("exists", &jast.Path{Steps: []jast.Node{&jast.Block{Exprs: []jast.Node{e}}, &jast.Name{V: "n"}}}),
			&jast.Bin{Op: "=", L: &jast.Path{Steps: []jast.Node{&jast.Block{Exprs: []jast.Node{e}}, &jast.Name{V: "b"}, &jast.Name{V: "n"}}}, R: &jast.Null{}},
			&jast.Path{Steps: []jast.Node{&jast.Block{Exprs: []jast.Node{e}}, &jast.Call{Fn: &jast.Name{V: "g"}, Args: []jast.Node{&jast.Num{V: 2}}}}},
			call("map", call("append", &jast.Path{Steps: []jast.Node{&jast.Block{Exprs: []jast.Node{e}}, &jast.Name{V: "fs"}}}, &jast.Array{}),
				&jast.Lambda{Params: []string{"h"}, Body: &jast.Cond{If: &jast.Bin{Op: "=", L: call("type", &jast.Var{Name: "h"}), R: &jast.Str{V: "function"}}, Then: &jast.Call{Fn: &jast.Var{Name: "h"}, Args: []jast.Node{&jast.Num{V: 2}}}, Else: call("type", &jast.Var{Name: "h"})}}),
		}})
	}
	if g.tags["update:function-member"] {
		// ... and call the inserted function on every object of the result
		res.Items = append(res.Items, &jast.Array{Items: []jast.Node{&jast.Path{Steps: []jast.Node{&jast.Block{Exprs: []jast.Node{e}},
			&jast.Pred{X: &jast.Desc{}, Filters: []jast.Node{call("exists", &jast.Name{V: "f"})}},
			&jast.Call{Fn: &jast.Name{V: "f"}, Args: []jast.Node{&jast.Num{V: 2}}}}}}})
	}
	return &jast.Block{Exprs: []jast.Node{&jast.Assign{Name: "v", Val: &jast.Name{V: r.Pick("a", "arr", "c")}}, res}}
}

func regValue() map[string]interface{} {
	listAll := []interface{}{2.0, 2.0, 3.0, 1.0, 6.0, 5.0}
	return map[string]interface{}{"list": listAll[:4], "listAll": listAll, "k": "x", "v": 7.0, "o": map[string]interface{}{"k": "x"},
		"m": []interface{}{[]interface{}{5.0, 4.0, 6.0}, []interface{}{2.0, 1.0}}}
}

func c07Run(r *fw.Rec, tree jast.Node, prog string, doc interface{}, tag string, useModel bool) {
	reg := regValue()
	before := gen.Clone(doc)
	regBefore := gen.Clone(reg)
	docJSON := gen.JSON(before)
	r.Begin(prog, docJSON)
	r.Tag(tag)
	r.Nontrivial(prog + "\x00" + docJSON)
	e, co := obs.Compile(prog)
	if e == nil {
		r.Outcome(co.Class())
		if useModel {
			r.Violation("compile-error", "generated program does not compile: "+co.String(), nil)
		} else {
			r.Held()
		}
		return
	}
	if err := e.RegisterVars(map[string]interface{}{"reg": reg}); err != nil {
		r.Inconclusive("RegisterVars failed: " + err.Error())
		return
	}
	o := obs.Eval(e, doc)
	r.Outcome(o.Class())
	bad := false
	if !reflect.DeepEqual(before, doc) {
		r.Violation("input-modified", fmt.Sprintf("the caller's document changed during Eval (outcome %s): before %s after %s", o.Class(), docJSON, gen.JSON(doc)), nil)
		bad = true
	}
	if !reflect.DeepEqual(regBefore, reg) {
		r.Violation("registered-var-modified", fmt.Sprintf("the registered variable changed during Eval: before %s after %s", gen.JSON(regBefore), gen.JSON(reg)), nil)
		bad = true
	}
	if o.Kind == "panic" {
		r.Count("eval_panics_(C09)", 1)
	}
	if useModel && !bad {
		ev := &refeval.Evaluator{Max: 2000000, MaxRange: 20000}
		mv, merr := ev.Run(tree, decodeDoc(docJSON), map[string]refeval.Value{"reg": gen.Clone(regBefore)})
		res := judge.Compare(o, mv, merr, judge.Opts{})
		switch {
		case res.Inconclusive:
			r.Inconclusive(res.Detail)
			return
		case !res.OK:
			r.Violation("transform-mismatch:"+o.Kind, res.Detail, nil)
			bad = true
		default:
			r.Count("transform_results_compared_with_model", 1)
			if ev.OutsideWrites > 0 {
				r.Count("patterns_selecting_objects_outside_the_copy", 1)
			}
		}
	}
	if !bad {
		r.Held()
		r.Sample(tag+":"+o.Kind, map[string]any{"prog": prog, "input": docJSON, "outcome": o.String()})
	}
	// second evaluation on the (unchanged) input must not see anything left behind
	_ = jsonata.ErrUndefined
}

func init() {
	fw.Register(&fw.Prop{
		ID: "C07", Title: "Input documents are never modified; transform returns a modified copy",
		Rule: "cases: PRNG-generated (a) type-chaotic programs of the C09 generator, (b) calls of the functions that would disturb their argument if they worked in place ($sort with/without comparator, $reverse, $append, $shuffle, $zip, $merge, $distinct, order-by, grouping, $map with a transform) on arrays taken from the input and from a registered variable, " +
			"(c) transforms |pattern|update[,delete]| with relative (a, a.b, *, **, arr[k=\"x\"]), absolute ($, $$, $v bound to an input node, $reg) and missing patterns, literal / computed / self-referring / nested-transform / non-object / missing updates, string / array / non-string / missing deletes, applied through ~>, a direct call, a chain of two, $map and with a wrong argument count, to objects, arrays, scalars and missing values. " +
			"Input documents contain nulls, empty containers and the same Go map/slice referenced from several places. Monitors: deep comparison of the caller's document and of the registered variable with a private copy taken before Eval (after success and after failure); transform results and error kinds compared with the reference model. non-trivial = every case; distinct by (program, input)",
		Assumptions: []string{"objects a pattern selects outside the transform's copy (through $$ or outer variables) are not part of the result and are left alone"},
		Plan: func(tier string, seed uint64) *fw.Plan {
			n := int64(30000)
			if tier == "thorough" {
				n = 1500000
			}
			return &fw.Plan{N: n,
				Run: func(i int64, r *fw.Rec) {
					rr := prng.New(seed, 0xC07, uint64(i))
					g := &c07Gen{r: rr, tags: map[string]bool{}}
					switch i % 4 {
					case 0:
						cg := gen.NewChaos(rr, 3+int(i/4%3), true)
						_, prog := cg.Program(jast.Style{Space: 1})
						var doc interface{}
						if rr.Bool() {
							doc = aliasedDoc(rr)
						} else {
							doc = gen.Doc(rr, gen.DocOpts{Nulls: true})
						}
						c07Run(r, nil, prog, doc, "chaos", false)
					case 1:
						tree := jast.Normalize(g.mutator())
						for t := range g.tags {
							r.Tag(t)
						}
						c07Run(r, tree, jast.Print(tree, jast.Style{Space: 1}), aliasedDoc(rr), "mutating-functions", false)
					default:
						tree := jast.Normalize(g.transformProgram())
						for t := range g.tags {
							r.Tag(t)
						}
						c07Run(r, tree, jast.Print(tree, jast.Style{Space: 1}), aliasedDoc(rr), "transform", true)
					}
				}}
		},
	})
}
