package props

import (
	"fmt"

	"verif/harness/fw"
	"verif/harness/gen"
	"verif/harness/jast"
	"verif/harness/judge"
	"verif/harness/obs"
	"verif/harness/prng"
)

// C13: order-by and $sort. Two oracles: the reference model, and direct checks
// on the port's output (permutation, adjacent order, stability) that need no
// model because every item carries a unique id.

type sortTerm struct {
	Key string // member name
	Dir string // "", "<", ">"
}

// key domain: index 0..2 are values, 3 = missing
func keyVal(kind string, v int) (interface{}, bool) {
	if v == 3 {
		return nil, false
	}
	if kind == "s" {
		// zero and the empty string are keys like any other
		return []string{"", "a", "b"}[v], true
	}
	return float64(v - 1), true
}

func cmpKeys(a, b interface{}) int {
	switch x := a.(type) {
	case float64:
		y := b.(float64)
		switch {
		case x < y:
			return -1
		case x > y:
			return 1
		}
		return 0
	case string:
		y := b.(string)
		switch {
		case x < y:
			return -1
		case x > y:
			return 1
		}
		return 0
	}
	return 0
}

// checkSorted verifies the port's output directly against the input items.
func checkSorted(in []interface{}, out interface{}, terms []sortTerm) string {
	var res []interface{}
	switch o := out.(type) {
	case []interface{}:
		res = o
	default:
		res = []interface{}{o} // singleton collapse
	}
	if len(res) != len(in) {
		return fmt.Sprintf("result has %d items, input has %d", len(res), len(in))
	}
	pos := map[float64]int{}
	for i, it := range in {
		pos[it.(map[string]interface{})["id"].(float64)] = i
	}
	seen := map[float64]bool{}
	for _, it := range res {
		m, ok := it.(map[string]interface{})
		if !ok {
			return "result item is not one of the input objects"
		}
		id, ok := m["id"].(float64)
		if !ok {
			return "result item without id"
		}
		p, known := pos[id]
		if !known || seen[id] {
			return fmt.Sprintf("item id %v duplicated or not from the input", id)
		}
		seen[id] = true
		if !obs.Equal(obs.Normalize(in[p], nil), it) {
			return fmt.Sprintf("item id %v was altered", id)
		}
	}
	for i := 0; i+1 < len(res); i++ {
		a, b := res[i].(map[string]interface{}), res[i+1].(map[string]interface{})
		c := 0
		for _, t := range terms {
			ka, oka := a[t.Key]
			kb, okb := b[t.Key]
			switch {
			case !oka && !okb:
				continue
			case !oka:
				c = 1 // absent follows present
			case !okb:
				c = -1
			default:
				c = cmpKeys(ka, kb)
				if t.Dir == ">" {
					c = -c
				}
			}
			if c != 0 {
				break
			}
		}
		if c > 0 {
			return fmt.Sprintf("items %v and %v are out of order", a["id"], b["id"])
		}
		if c == 0 && pos[a["id"].(float64)] > pos[b["id"].(float64)] {
			return fmt.Sprintf("items %v and %v have equal keys but lost their input order (not stable)", a["id"], b["id"])
		}
	}
	return ""
}

func mkItems(keys [][]int, kinds []string, names []string) []interface{} {
	items := make([]interface{}, len(keys))
	for i, ks := range keys {
		m := map[string]interface{}{"id": float64(i + 1)}
		for j, k := range ks {
			if v, ok := keyVal(kinds[j], k); ok {
				m[names[j]] = v
			}
		}
		items[i] = m
	}
	return items
}

func sortProgram(terms []sortTerm) jast.Node {
	s := &jast.Sort{X: &jast.Name{V: "arr"}}
	for _, t := range terms {
		s.Terms = append(s.Terms, jast.SortTerm{Dir: t.Dir, X: &jast.Name{V: t.Key}})
	}
	return s
}

var c13Dirs = []string{"", "<", ">"}

// exhaustive: one term, arrays of length 0..4 over the 4-value key domain
func c13Ex1(i int64) (jast.Node, O, []sortTerm, []interface{}) {
	dir := c13Dirs[i%3]
	i /= 3
	kind := []string{"n", "s"}[i%2]
	i /= 2
	l := 0
	for n := int64(1); i >= n; n *= 4 {
		i -= n
		l++
	}
	keys := make([][]int, l)
	for j := l - 1; j >= 0; j-- {
		keys[j] = []int{int(i % 4)}
		i /= 4
	}
	terms := []sortTerm{{"k1", dir}}
	items := mkItems(keys, []string{kind}, []string{"k1"})
	return sortProgram(terms), O{"arr": items}, terms, items
}

func c13Ex1N() int64 { return 3 * 2 * (1 + 4 + 16 + 64 + 256) }

// two terms, arrays of length 0..3 over 4x4 key pairs, 9 direction pairs
func c13Ex2(i int64) (jast.Node, O, []sortTerm, []interface{}) {
	d1 := c13Dirs[i%3]
	i /= 3
	d2 := c13Dirs[i%3]
	i /= 3
	l := 0
	for n := int64(1); i >= n; n *= 16 {
		i -= n
		l++
	}
	keys := make([][]int, l)
	for j := l - 1; j >= 0; j-- {
		keys[j] = []int{int(i % 4), int(i / 4 % 4)}
		i /= 16
	}
	terms := []sortTerm{{"k1", d1}, {"k2", d2}}
	items := mkItems(keys, []string{"n", "s"}, []string{"k1", "k2"})
	return sortProgram(terms), O{"arr": items}, terms, items
}

func c13Ex2N() int64 { return 9 * (1 + 16 + 256 + 4096) }

func c13Run(r *fw.Rec, tree jast.Node, doc O, terms []sortTerm, items []interface{}, tag string) {
	o, ok := modelCheck(r, tree, doc, tag, judge.Opts{EmptyIsUndef: true}, nil)
	if !ok || terms == nil || o.Kind != "value" {
		return
	}
	if msg := checkSorted(items, obs.Normalize(o.Val, nil), terms); msg != "" {
		r.Violation("order-law", msg+"; result "+obs.Show(o.Val), nil)
		return
	}
	r.Count("direct_order_checks_passed", 1)
}

func c13Random(rr *prng.R, r *fw.Rec) {
	kind := rr.Intn(10)
	n := rr.Range(5, 8)
	if rr.Intn(2) == 0 {
		n = rr.Range(13, 200)
	}
	nterms := rr.Range(1, 3)
	names := []string{"k1", "k2", "k3"}[:nterms]
	kinds := make([]string, nterms)
	for i := range kinds {
		kinds[i] = rr.Pick("n", "s")
	}
	keys := make([][]int, n)
	for i := range keys {
		keys[i] = make([]int, nterms)
		for j := range keys[i] {
			keys[i][j] = rr.Intn(4)
			if rr.Intn(3) > 0 && keys[i][j] == 3 {
				keys[i][j] = rr.Intn(3) // fewer missing keys
			}
		}
	}
	items := mkItems(keys, kinds, names)
	terms := make([]sortTerm, nterms)
	for i := range terms {
		terms[i] = sortTerm{names[i], rr.Pick("", "<", ">")}
	}
	doc := O{"arr": items}
	switch {
	case kind < 5 && rr.Intn(4) == 0:
		// the sequence is $ or a variable and the input itself is the array: the
		// order-by must be applied once to the whole array, also when further
		// steps follow (a per-member sort would hand back the input order)
		srt := func(x jast.Node) *jast.Sort {
			s := sortProgram(terms).(*jast.Sort)
			s.X = x
			return s
		}
		id := &jast.Name{V: "id"}
		var tree jast.Node
		if rr.Intn(3) == 0 {
			// the sequence is a path that starts with a variable, over an input
			// that is an array of objects holding the items in two halves
			h := len(items) / 2
			root := A{O{"arr": A(items[:h])}, O{"arr": A(items[h:])}}
			arrOf := func(v string) jast.Node {
				return &jast.Path{Steps: []jast.Node{&jast.Var{Name: v}, &jast.Name{V: "arr"}}}
			}
			switch rr.Intn(5) {
			case 3:
				// a relative sequence: the members' items are sorted as one sequence
				tree = &jast.Path{Steps: []jast.Node{srt(&jast.Name{V: "arr"}), id}}
			case 4:
				tree = &jast.Path{Steps: []jast.Node{&jast.Pred{X: srt(&jast.Name{V: "arr"}), Filters: []jast.Node{&jast.Num{V: 0}}}, id}}
			case 0:
				tree = &jast.Path{Steps: []jast.Node{srt(arrOf("$")), id}}
			case 1:
				tree = &jast.Block{Exprs: []jast.Node{&jast.Assign{Name: "v", Val: &jast.Var{Name: ""}}, &jast.Path{Steps: []jast.Node{srt(arrOf("v")), id}}}}
			default:
				tree = &jast.Path{Steps: []jast.Node{&jast.Pred{X: srt(arrOf("")), Filters: []jast.Node{&jast.Num{V: 0}}}, id}}
			}
			modelCheck(r, tree, root, "order-by-on-variable-path", judge.Opts{EmptyIsUndef: true}, nil)
			break
		}
		switch rr.Intn(5) {
		case 0:
			tree = &jast.Path{Steps: []jast.Node{srt(&jast.Var{Name: ""}), id}}
		case 1:
			tree = &jast.Block{Exprs: []jast.Node{&jast.Assign{Name: "v", Val: &jast.Var{Name: ""}}, &jast.Path{Steps: []jast.Node{srt(&jast.Var{Name: "v"}), id}}}}
		case 2:
			tree = &jast.Path{Steps: []jast.Node{srt(&jast.Var{Name: ""})}, Keep: true}
		case 3:
			tree = &jast.Path{Steps: []jast.Node{&jast.Pred{X: srt(&jast.Var{Name: "$"}), Filters: []jast.Node{&jast.Num{V: 0}}}, id}}
		default:
			tree = &jast.Path{Steps: []jast.Node{srt(srt(&jast.Var{Name: ""})), id}}
		}
		modelCheck(r, tree, items, "order-by-on-context-array", judge.Opts{EmptyIsUndef: true}, nil)
	case kind < 5 && rr.Intn(10) == 0:
		// the keep-array marker written before the order-by, on a sequence of one
		// item (and of several): the result stays an array
		one := doc
		if rr.Intn(3) > 0 {
			one = O{"arr": items[:1]}
		}
		srt := sortProgram(terms).(*jast.Sort)
		srt.X = &jast.Path{Steps: []jast.Node{&jast.Name{V: "arr"}}, Keep: true}
		var head jast.Node = srt
		if rr.Intn(3) == 0 {
			// ... also when the sorted sequence is filtered
			head = &jast.Pred{X: srt, Filters: []jast.Node{&jast.Num{V: 0}}}
		}
		tree := head
		if rr.Bool() {
			tree = &jast.Path{Steps: []jast.Node{head, &jast.Name{V: "id"}}}
		}
		modelCheck(r, tree, one, "order-by-after-keep-array-marker", judge.Opts{EmptyIsUndef: true}, nil)
	case kind < 5 && nterms > 1 && rr.Intn(4) == 0:
		// an order-by applied to the result of another: the outer keys decide,
		// items that are equal under them stay in the order the inner one gave
		inner := sortProgram([]sortTerm{{names[nterms-1], rr.Pick("", "<", ">")}}).(*jast.Sort)
		outer := sortProgram(terms[:nterms-1]).(*jast.Sort)
		outer.X = inner
		var tree jast.Node = outer
		if rr.Bool() {
			tree = &jast.Path{Steps: []jast.Node{outer, &jast.Name{V: "id"}}}
		}
		modelCheck(r, tree, doc, "order-by-chained", judge.Opts{EmptyIsUndef: true}, nil)
	case kind < 5:
		c13Run(r, sortProgram(terms), doc, terms, items, "order-by")
	case kind == 5:
		// error clause: one item gets a key of a wrong or mixed type
		bad := items[rr.Intn(len(items))].(map[string]interface{})
		bad[names[0]] = []interface{}{true, A{1.0}, O{"x": 1.0}, "a", 2.0}[rr.Intn(5)]
		switch rr.Intn(4) {
		case 0:
			// ... also when it is the only item of the sequence: a key that cannot
			// be ordered is an error however few items there are to order
			doc["arr"] = A{bad}
		case 1:
			doc["arr"] = bad
		}
		c13Run(r, sortProgram(terms), doc, nil, nil, "order-by-bad-key")
	case kind == 6:
		// computed keys
		s := &jast.Sort{X: &jast.Name{V: "arr"}}
		var e jast.Node
		if kinds[0] == "n" {
			e = &jast.Bin{Op: "*", L: &jast.Name{V: "k1"}, R: &jast.Num{V: -1}}
			if rr.Bool() {
				e = &jast.Bin{Op: "-", L: &jast.Name{V: "k1"}, R: &jast.Num{V: 1}}
			}
		} else {
			e = &jast.Bin{Op: "&", L: &jast.Name{V: "k1"}, R: &jast.Str{V: "x"}}
		}
		s.Terms = append(s.Terms, jast.SortTerm{Dir: rr.Pick("", "<", ">"), X: e})
		c13Run(r, s, doc, nil, nil, "order-by-computed")
	case kind == 7:
		// $sort(a) on scalars, and ^($)
		m := rr.Range(0, 40)
		arr := make([]interface{}, m)
		str := rr.Bool()
		for i := range arr {
			if str {
				arr[i] = []string{"a", "b", "B", "aa", "é", "", "10", "9"}[rr.Intn(8)]
			} else {
				arr[i] = []float64{1, 2, 3, -1, 0.5, 1e21, 0}[rr.Intn(7)]
			}
		}
		if rr.Intn(3) == 0 {
			// $sort(a, f) on plain numbers or strings: the comparator decides, not
			// the default order of the members' type (strict weak orders, so the
			// result is fixed by stability whatever the algorithm)
			l, rgt := &jast.Var{Name: "l"}, &jast.Var{Name: "r"}
			call := func(fn string, x jast.Node) jast.Node {
				return &jast.Call{Fn: &jast.Var{Name: fn}, Args: []jast.Node{x}}
			}
			var body jast.Node
			switch k := rr.Intn(4); {
			case k == 0:
				body = &jast.Bin{Op: "<", L: l, R: rgt}
			case k == 1:
				body = &jast.Bin{Op: ">", L: l, R: rgt}
			case str && k == 2:
				body = &jast.Bin{Op: rr.Pick("<", ">"), L: call("length", l), R: call("length", rgt)}
			case str:
				body = &jast.Bin{Op: rr.Pick("<", ">"), L: call("lowercase", l), R: call("lowercase", rgt)}
			case k == 2:
				body = &jast.Bin{Op: rr.Pick("<", ">"), L: call("abs", l), R: call("abs", rgt)}
			default:
				body = &jast.Bin{Op: rr.Pick("<", ">"), L: call("floor", l), R: call("floor", rgt)}
			}
			tree := &jast.Call{Fn: &jast.Var{Name: "sort"}, Args: []jast.Node{&jast.Name{V: "xs"}, &jast.Lambda{Params: []string{"l", "r"}, Body: body}}}
			c13Run(r, tree, O{"xs": arr}, nil, nil, "sort-scalars-comparator")
			return
		}
		if rr.Intn(6) == 0 && m > 0 {
			arr[rr.Intn(m)] = []interface{}{true, "x", 5.0, A{1.0}}[rr.Intn(4)]
		}
		var tree jast.Node
		if rr.Bool() {
			tree = &jast.Call{Fn: &jast.Var{Name: "sort"}, Args: []jast.Node{&jast.Name{V: "xs"}}}
		} else {
			tree = &jast.Sort{X: &jast.Name{V: "xs"}, Terms: []jast.SortTerm{{Dir: rr.Pick("", "<", ">"), X: &jast.Var{Name: ""}}}}
		}
		c13Run(r, tree, O{"xs": arr}, nil, nil, "sort-scalars")
	default:
		// $sort(a, f) with a comparator derived from a strict weak order on one or two members
		var cmp jast.Node
		l, rgt := &jast.Var{Name: "l"}, &jast.Var{Name: "r"}
		mem := func(v *jast.Var, k string) jast.Node { return &jast.Path{Steps: []jast.Node{v, &jast.Name{V: k}}} }
		op := rr.Pick(">", "<")
		one := &jast.Bin{Op: op, L: mem(l, "k1"), R: mem(rgt, "k1")}
		cterms := []sortTerm{{"k1", map[string]string{">": "<", "<": ">"}[op]}}
		cmp = one
		if nterms >= 2 && rr.Bool() {
			op2 := rr.Pick(">", "<")
			cmp = &jast.Bin{Op: "or", L: one, R: &jast.Bin{Op: "and", L: &jast.Bin{Op: "=", L: mem(l, "k1"), R: mem(rgt, "k1")}, R: &jast.Bin{Op: op2, L: mem(l, "k2"), R: mem(rgt, "k2")}}}
			cterms = append(cterms, sortTerm{"k2", map[string]string{">": "<", "<": ">"}[op2]})
		}
		// all keys present and of one type per member (otherwise the comparator errors)
		for i := range keys {
			for j := range keys[i] {
				if keys[i][j] == 3 {
					keys[i][j] = 0
				}
			}
		}
		items = mkItems(keys, kinds, names)
		doc = O{"arr": items}
		var f jast.Node = &jast.Lambda{Params: []string{"l", "r"}, Body: cmp}
		tag := "sort-comparator"
		switch rr.Intn(8) {
		case 0:
			f = &jast.Lambda{Params: []string{"l", "r"}, Body: &jast.Num{V: 1}} // non-boolean comparator
			cterms, tag = nil, "sort-comparator-nonboolean"
		case 1:
			f = &jast.Lambda{Params: []string{"l", "r"}, Body: &jast.Call{Fn: &jast.Var{Name: "error"}, Args: []jast.Node{&jast.Str{V: "cmp"}}}}
			cterms, tag = nil, "sort-comparator-error"
		case 2:
			// the comparator fails for one member only (its key has another type):
			// wherever that member sits, the failure is the outcome of $sort
			bad := items[rr.Intn(len(items))].(map[string]interface{})
			if kinds[0] == "s" {
				bad["k1"] = 7.0
			} else {
				bad["k1"] = "x"
			}
			f = &jast.Lambda{Params: []string{"l", "r"}, Body: one}
			cterms, tag = nil, "sort-comparator-fails-for-one-member"
		}
		tree := &jast.Call{Fn: &jast.Var{Name: "sort"}, Args: []jast.Node{&jast.Name{V: "arr"}, f}}
		var its []interface{}
		if cterms != nil {
			its = items
		}
		c13Run(r, tree, doc, cterms, its, tag)
	}
}

func init() {
	_ = gen.JSON
	fw.Register(&fw.Prop{
		ID: "C13", Title: "Order-by and $sort return stable, correctly ordered permutations",
		Rule: "cases: (a) exhaustive: one-term order-by over all 341 arrays of length<=4 on a key domain of 3 values + missing, number and string keys, 3 directions; two-term order-by over all 4369 arrays of length<=3 on the 4x4 key-pair domain x 9 direction pairs; " +
			"(b) PRNG-generated arrays of 5..8 and 13..200 objects {id,k1,k2,k3} (many ties, missing members), 1..3 terms with every direction, computed keys, $ as key, $sort(a) on number/string arrays, $sort(a,f) with comparators derived from strict weak orders on one or two members, non-boolean and failing comparators, keys of wrong or mixed type. " +
			"order-by applied to $, $$ or a variable when the input itself is the array, followed by a projection, a predicate, [] or a second order-by; Oracles: reference model (exact) and, independently, direct checks on the output using the unique ids: permutation of the input, adjacent pairs ordered under the key tuple with absent keys last, equal tuples in input order. non-trivial = array of >=2 items; distinct by (program, input)",
		Assumptions: []string{"string order is byte-wise UTF-8 order, which equals code point order"},
		Plan: func(tier string, seed uint64) *fw.Plan {
			n1, n2 := c13Ex1N(), c13Ex2N()
			nRand := int64(6000)
			if tier == "thorough" {
				nRand = 400000
			}
			return &fw.Plan{N: n1 + n2 + nRand,
				Subspaces: []string{fmt.Sprintf("%d one-term cases (all arrays len<=4 over 4 key values x 2 key types x 3 directions)", n1), fmt.Sprintf("%d two-term cases (all arrays len<=3 over 16 key pairs x 9 direction pairs)", n2)},
				Run: func(i int64, r *fw.Rec) {
					switch {
					case i < n1:
						t, d, terms, items := c13Ex1(i)
						c13Run(r, t, d, terms, items, "exhaustive-1term")
					case i < n1+n2:
						t, d, terms, items := c13Ex2(i - n1)
						c13Run(r, t, d, terms, items, "exhaustive-2term")
					default:
						c13Random(prng.New(seed, 0xC13, uint64(i)), r)
					}
				}}
		},
	})
}
