package props

import (
	"fmt"
	"strings"

	"github.com/blues/jsonata-go/jparse"

	"verif/harness/fw"
	"verif/harness/jast"
	"verif/harness/judge"
	"verif/harness/obs"
	"verif/harness/prng"
	"verif/harness/refeval"
)

// C04: the parse is fixed by precedence, associativity and parentheses.
// Oracle: the generator's own trees. A tree is printed with the minimum of
// parentheses that an independent encoding of the precedence table demands
// (jast.Normalize) and, separately, fully parenthesised; the exported AST that
// jparse.Parse returns for either text, reduced to a canonical S-expression in
// which only grouping remains, must equal the canonical form of the tree.

// ---- canonical form of the harness's trees

func sx(head string, parts ...string) string {
	return "(" + head + " " + strings.Join(parts, " ") + ")"
}

func mergePred(cx string, filters []string) string {
	if strings.HasPrefix(cx, "(pred ") {
		return cx[:len(cx)-1] + " " + strings.Join(filters, " ") + ")"
	}
	return sx("pred", append([]string{cx}, filters...)...)
}

func canonPath(steps []string, keep bool) string {
	var out []string
	for _, s := range steps {
		if strings.HasPrefix(s, "(path ") {
			inner := splitTop(s[6 : len(s)-1])
			out = append(out, inner...)
		} else {
			out = append(out, s)
		}
	}
	res := ""
	if len(out) == 1 {
		res = out[0]
	} else {
		res = sx("path", out...)
	}
	if keep {
		return sx("keep", res)
	}
	return res
}

// splitTop splits an S-expression body at top-level spaces.
func splitTop(s string) []string {
	var out []string
	depth, start := 0, 0
	inStr := false
	for i := 0; i < len(s); i++ {
		c := s[i]
		switch {
		case inStr:
			if c == '\\' {
				i++
			} else if c == '"' {
				inStr = false
			}
		case c == '"':
			inStr = true
		case c == '(':
			depth++
		case c == ')':
			depth--
		case c == ' ' && depth == 0:
			if i > start {
				out = append(out, s[start:i])
			}
			start = i + 1
		}
	}
	if start < len(s) {
		out = append(out, s[start:])
	}
	return out
}

func canonJ(n jast.Node) string {
	switch n := n.(type) {
	case nil:
		return "nil"
	case *jast.Str:
		return fmt.Sprintf("%q", n.V)
	case *jast.Num:
		return jast.FormatNum(n.V)
	case *jast.Bool:
		return fmt.Sprint(n.V)
	case *jast.Null:
		return "null"
	case *jast.Var:
		return "$" + n.Name
	case *jast.Name:
		return "`" + n.V + "`"
	case *jast.Wild:
		return "*"
	case *jast.Desc:
		return "**"
	case *jast.Regex:
		return "/" + n.Pat + "/" + n.Flags
	case *jast.Path:
		steps := make([]string, len(n.Steps))
		for i, s := range n.Steps {
			steps[i] = canonJ(s)
		}
		return canonPath(steps, n.Keep)
	case *jast.Neg:
		return sx("neg", canonJ(n.X))
	case *jast.Range:
		return sx("..", canonJ(n.L), canonJ(n.R))
	case *jast.Array:
		return sx("array", canonList(n.Items)...)
	case *jast.Object:
		return sx("object", canonPairs(n.Pairs)...)
	case *jast.Block:
		if len(n.Exprs) == 1 {
			return canonJ(n.Exprs[0])
		}
		return sx("block", canonList(n.Exprs)...)
	case *jast.Cond:
		return sx("?", canonJ(n.If), canonJ(n.Then), canonJ(n.Else))
	case *jast.Assign:
		return sx(":=", "$"+n.Name, canonJ(n.Val))
	case *jast.Group:
		return sx("group", append([]string{canonJ(n.X)}, canonPairs(n.Pairs)...)...)
	case *jast.Pred:
		return mergePred(canonJ(n.X), canonList(n.Filters))
	case *jast.Sort:
		parts := []string{canonJ(n.X)}
		for _, t := range n.Terms {
			d := t.Dir
			if d == "" {
				d = "_"
			}
			parts = append(parts, sx("term", d, canonJ(t.X)))
		}
		return sx("sort", parts...)
	case *jast.Lambda:
		return sx("lambda", "["+strings.Join(n.Params, ",")+"]", "<"+n.Sig+">", canonJ(n.Body))
	case *jast.Transform:
		return sx("transform", canonJ(n.Pattern), canonJ(n.Update), canonJ(n.Delete))
	case *jast.Call:
		head := "call"
		for _, a := range n.Args {
			if _, ok := a.(*jast.Placeholder); ok {
				head = "partial"
			}
		}
		return sx(head, append([]string{canonJ(n.Fn)}, canonList(n.Args)...)...)
	case *jast.Placeholder:
		return "?"
	case *jast.Apply:
		return sx("~>", canonJ(n.L), canonJ(n.R))
	case *jast.Bin:
		return sx(n.Op, canonJ(n.L), canonJ(n.R))
	}
	return fmt.Sprintf("<unknown %T>", n)
}

func canonList(xs []jast.Node) []string {
	out := make([]string, len(xs))
	for i, x := range xs {
		out[i] = canonJ(x)
	}
	return out
}

func canonPairs(ps [][2]jast.Node) []string {
	out := make([]string, len(ps))
	for i, p := range ps {
		out[i] = sx("kv", canonJ(p[0]), canonJ(p[1]))
	}
	return out
}

// ---- canonical form of the port's exported AST

func canonP(n jparse.Node) string {
	switch n := n.(type) {
	case nil:
		return "nil"
	case *jparse.StringNode:
		return fmt.Sprintf("%q", n.Value)
	case *jparse.NumberNode:
		return jast.FormatNum(n.Value)
	case *jparse.BooleanNode:
		return fmt.Sprint(n.Value)
	case *jparse.NullNode:
		return "null"
	case *jparse.VariableNode:
		return "$" + n.Name
	case *jparse.NameNode:
		return "`" + n.Value + "`"
	case *jparse.WildcardNode:
		return "*"
	case *jparse.DescendentNode:
		return "**"
	case *jparse.RegexNode:
		return "/" + n.Value.String() + "/"
	case *jparse.PathNode:
		steps := make([]string, len(n.Steps))
		for i, s := range n.Steps {
			steps[i] = canonP(s)
		}
		return canonPath(steps, n.KeepArrays)
	case *jparse.NegationNode:
		return sx("neg", canonP(n.RHS))
	case *jparse.RangeNode:
		return sx("..", canonP(n.LHS), canonP(n.RHS))
	case *jparse.ArrayNode:
		return sx("array", canonPList(n.Items)...)
	case *jparse.ObjectNode:
		return sx("object", canonPPairs(n.Pairs)...)
	case *jparse.BlockNode:
		if len(n.Exprs) == 1 {
			return canonP(n.Exprs[0])
		}
		return sx("block", canonPList(n.Exprs)...)
	case *jparse.ConditionalNode:
		return sx("?", canonP(n.If), canonP(n.Then), canonP(n.Else))
	case *jparse.AssignmentNode:
		return sx(":=", "$"+n.Name, canonP(n.Value))
	case *jparse.GroupNode:
		return sx("group", append([]string{canonP(n.Expr)}, canonPPairs(n.ObjectNode.Pairs)...)...)
	case *jparse.PredicateNode:
		return mergePred(canonP(n.Expr), canonPList(n.Filters))
	case *jparse.SortNode:
		parts := []string{canonP(n.Expr)}
		for _, t := range n.Terms {
			d := "_"
			switch t.Dir {
			case jparse.SortAscending:
				d = "<"
			case jparse.SortDescending:
				d = ">"
			}
			parts = append(parts, sx("term", d, canonP(t.Expr)))
		}
		return sx("sort", parts...)
	case *jparse.LambdaNode:
		return sx("lambda", "["+strings.Join(n.ParamNames, ",")+"]", "<>", canonP(n.Body))
	case *jparse.TypedLambdaNode:
		sig := ""
		for _, p := range n.In {
			sig += p.String()
		}
		return sx("lambda", "["+strings.Join(n.ParamNames, ",")+"]", "<"+sig+">", canonP(n.Body))
	case *jparse.ObjectTransformationNode:
		return sx("transform", canonP(n.Pattern), canonP(n.Updates), canonP(n.Deletes))
	case *jparse.PartialNode:
		return sx("partial", append([]string{canonP(n.Func)}, canonPList(n.Args)...)...)
	case *jparse.PlaceholderNode:
		return "?"
	case *jparse.FunctionCallNode:
		return sx("call", append([]string{canonP(n.Func)}, canonPList(n.Args)...)...)
	case *jparse.FunctionApplicationNode:
		return sx("~>", canonP(n.LHS), canonP(n.RHS))
	case *jparse.NumericOperatorNode:
		return sx(n.Type.String(), canonP(n.LHS), canonP(n.RHS))
	case *jparse.ComparisonOperatorNode:
		return sx(n.Type.String(), canonP(n.LHS), canonP(n.RHS))
	case *jparse.BooleanOperatorNode:
		return sx(n.Type.String(), canonP(n.LHS), canonP(n.RHS))
	case *jparse.StringConcatenationNode:
		return sx("&", canonP(n.LHS), canonP(n.RHS))
	}
	return fmt.Sprintf("<unknown %T>", n)
}

func canonPList(xs []jparse.Node) []string {
	out := make([]string, len(xs))
	for i, x := range xs {
		out[i] = canonP(x)
	}
	return out
}

func canonPPairs(ps [][2]jparse.Node) []string {
	out := make([]string, len(ps))
	for i, p := range ps {
		out[i] = sx("kv", canonP(p[0]), canonP(p[1]))
	}
	return out
}

// ---- full parenthesisation

// fullParen wraps every operator sub-expression in its own block.
func fullParen(n jast.Node) jast.Node {
	w := func(x jast.Node) jast.Node {
		switch x.(type) {
		case *jast.Str, *jast.Num, *jast.Bool, *jast.Null, *jast.Var, *jast.Name, *jast.Wild, *jast.Desc, *jast.Placeholder, nil:
			return x
		}
		return &jast.Block{Exprs: []jast.Node{fullParen(x)}}
	}
	switch n := n.(type) {
	case *jast.Path:
		steps := make([]jast.Node, len(n.Steps))
		for i, s := range n.Steps {
			steps[i] = w(s)
		}
		// a.b.c groups to the left: ((a.b).c)
		var cur jast.Node = steps[0]
		for _, s := range steps[1:] {
			cur = &jast.Path{Steps: []jast.Node{&jast.Block{Exprs: []jast.Node{cur}}, s}}
			if len(steps) == 2 {
				cur = &jast.Path{Steps: []jast.Node{steps[0], s}}
			}
		}
		if p, ok := cur.(*jast.Path); ok {
			return &jast.Path{Steps: p.Steps, Keep: n.Keep}
		}
		return cur
	case *jast.Bin:
		return &jast.Bin{Op: n.Op, L: w(n.L), R: w(n.R)}
	case *jast.Apply:
		return &jast.Apply{L: w(n.L), R: w(n.R)}
	case *jast.Cond:
		return &jast.Cond{If: w(n.If), Then: w(n.Then), Else: w(n.Else)}
	case *jast.Assign:
		return &jast.Assign{Name: n.Name, Val: w(n.Val)}
	case *jast.Pred:
		fs := make([]jast.Node, len(n.Filters))
		for i, f := range n.Filters {
			fs[i] = w(f)
		}
		return &jast.Pred{X: w(n.X), Filters: fs}
	case *jast.Call:
		as := make([]jast.Node, len(n.Args))
		for i, a := range n.Args {
			as[i] = w(a)
		}
		return &jast.Call{Fn: w(n.Fn), Args: as}
	case *jast.Group:
		ps := make([][2]jast.Node, len(n.Pairs))
		for i, p := range n.Pairs {
			ps[i] = [2]jast.Node{w(p[0]), w(p[1])}
		}
		return &jast.Group{X: w(n.X), Pairs: ps}
	case *jast.Sort:
		ts := make([]jast.SortTerm, len(n.Terms))
		for i, t := range n.Terms {
			ts[i] = jast.SortTerm{Dir: t.Dir, X: w(t.X)}
		}
		return &jast.Sort{X: w(n.X), Terms: ts}
	case *jast.Block:
		es := make([]jast.Node, len(n.Exprs))
		for i, e := range n.Exprs {
			es[i] = fullParen(e)
		}
		return &jast.Block{Exprs: es}
	case *jast.Array:
		es := make([]jast.Node, len(n.Items))
		for i, e := range n.Items {
			es[i] = w(e)
		}
		return &jast.Array{Items: es}
	}
	return n
}

// ---- operator chains

var c04Ops = []string{".", "[]", "()", "{}", "*", "/", "%", "+", "-", "&", "=", "!=", "<", "<=", ">", ">=", "in", "^", "~>", "and", "or", "?:", ":="}

const c04LeafKinds = 13

// contents of string operands (k/c04LeafKinds selects one): text that ends in an
// escaped backslash, holds either quote character, an escape of each kind, or
// spells operators, brackets, a comment opener and a regex, so that where the
// literal ends decides how everything after it is parsed - in both quote styles
var c04Strings = []string{"s", `C:\`, `a"b`, "it's", `\`, `x\"`, "'", `"`, `\\`, " and ", "/", "(", ")]", "~>", ":=", "/*", "a\nb\t", "\u00e9\\", "'\\", "\\'", `"\\`, "? :", "{", "}"}

func c04Leaf(k int) jast.Node {
	switch k % c04LeafKinds {
	case 5:
		return &jast.Name{V: "and", Bare: true}
	case 6:
		return &jast.Name{V: "or", Bare: true}
	case 7:
		return &jast.Name{V: "in", Bare: true}
	case 8:
		return &jast.Wild{}
	case 9:
		return &jast.Desc{}
	case 12:
		return &jast.Neg{X: &jast.Name{V: "n"}}
	case 10:
		return &jast.Lambda{Params: []string{"p"}, Body: &jast.Var{Name: "p"}}
	case 11:
		return &jast.Transform{Pattern: &jast.Name{V: "t"}, Update: &jast.Object{Pairs: [][2]jast.Node{{&jast.Str{V: "u"}, &jast.Num{V: 1}}}}}
	}
	switch k % c04LeafKinds {
	case 0:
		return &jast.Name{V: "a"}
	case 1:
		return &jast.Var{Name: "v"}
	case 2:
		return &jast.Num{V: 1}
	case 3:
		return &jast.Str{V: c04Strings[k/c04LeafKinds%len(c04Strings)]}
	}
	return &jast.Call{Fn: &jast.Var{Name: "f"}, Args: []jast.Node{&jast.Name{V: "x"}}}
}

// mk builds "L op R"; ok=false when the combination is not expressible
// (assignment to a non-variable).
func mk(op string, l, r jast.Node) (jast.Node, bool) {
	switch op {
	case ".":
		return &jast.Path{Steps: []jast.Node{l, r}}, true
	case "[]":
		return &jast.Pred{X: l, Filters: []jast.Node{r}}, true
	case "()":
		return &jast.Call{Fn: l, Args: []jast.Node{r}}, true
	case "{}":
		return &jast.Group{X: l, Pairs: [][2]jast.Node{{&jast.Str{V: "k"}, r}}}, true
	case "^":
		return &jast.Sort{X: l, Terms: []jast.SortTerm{{X: r}}}, true
	case "~>":
		return &jast.Apply{L: l, R: r}, true
	case "?:":
		return &jast.Cond{If: l, Then: r, Else: &jast.Name{V: "e"}}, true
	case ":=":
		v, ok := l.(*jast.Var)
		if !ok || v.Name == "" {
			return nil, false
		}
		return &jast.Assign{Name: v.Name, Val: r}, true
	}
	return &jast.Bin{Op: op, L: l, R: r}, true
}

// tree shapes over k operators: shape index enumerates binary bracketings
func c04Tree(ops []string, shape int, leaves []jast.Node) (jast.Node, bool) {
	switch len(ops) {
	case 1:
		return mk(ops[0], leaves[0], leaves[1])
	case 2:
		if shape%2 == 0 { // (a op1 b) op2 c
			l, ok := mk(ops[0], leaves[0], leaves[1])
			if !ok {
				return nil, false
			}
			return mk(ops[1], l, leaves[2])
		}
		r, ok := mk(ops[1], leaves[1], leaves[2])
		if !ok {
			return nil, false
		}
		return mk(ops[0], leaves[0], r)
	case 3:
		a, b, c, d := leaves[0], leaves[1], leaves[2], leaves[3]
		o1, o2, o3 := ops[0], ops[1], ops[2]
		m := func(op string, l jast.Node, lok bool, r jast.Node, rok bool) (jast.Node, bool) {
			if !lok || !rok {
				return nil, false
			}
			return mk(op, l, r)
		}
		switch shape % 5 {
		case 0: // ((a o1 b) o2 c) o3 d
			x, ok := mk(o1, a, b)
			y, ok2 := m(o2, x, ok, c, true)
			return m(o3, y, ok2, d, true)
		case 1: // (a o1 (b o2 c)) o3 d
			x, ok := mk(o2, b, c)
			y, ok2 := m(o1, a, true, x, ok)
			return m(o3, y, ok2, d, true)
		case 2: // (a o1 b) o2 (c o3 d)
			x, ok := mk(o1, a, b)
			y, ok2 := mk(o3, c, d)
			return m(o2, x, ok, y, ok2)
		case 3: // a o1 ((b o2 c) o3 d)
			x, ok := mk(o2, b, c)
			y, ok2 := m(o3, x, ok, d, true)
			return m(o1, a, true, y, ok2)
		default: // a o1 (b o2 (c o3 d))
			x, ok := mk(o3, c, d)
			y, ok2 := m(o2, b, true, x, ok)
			return m(o1, a, true, y, ok2)
		}
	}
	return nil, false
}

func c04Check(r *fw.Rec, tree jast.Node, tag string, rr *prng.R) {
	norm := jast.Normalize(tree)
	want := canonJ(norm)
	minimal := jast.Print(norm, jast.Style{})
	r.Begin(minimal, "")
	r.Tag(tag)
	r.Nontrivial(minimal)
	texts := []struct{ kind, text string }{
		{"minimal", minimal},
		{"spaced", jast.Print(norm, jast.Style{Space: 1, Single: true})},
		{"full-parentheses", jast.Print(jast.Normalize(fullParen(tree)), jast.Style{})},
	}
	if rr != nil {
		texts = append(texts, struct{ kind, text string }{"random-whitespace", jast.Print(norm, jast.Style{Space: 2, Single: rr.Bool(), Rnd: rr.Intn})})
	}
	for _, t := range texts {
		r.Evals(1)
		var node jparse.Node
		var err error
		if pi := fw.Guard(func() { node, err = jparse.Parse(t.text) }); pi != nil {
			r.Violation("panic:Parse", "jparse.Parse panicked on "+t.text+": "+pi.Value, nil)
			return
		}
		if err != nil {
			r.Outcome("parse-error")
			r.Violation("valid-program-rejected:"+t.kind, fmt.Sprintf("%s print %q of the tree %s does not parse: %v", t.kind, t.text, want, err), nil)
			return
		}
		if got := canonP(node); got != want {
			r.Outcome("parsed")
			r.Violation("structure:"+t.kind, fmt.Sprintf("%s print %q parses as %s, the precedence rules give %s", t.kind, t.text, got, want), nil)
			return
		}
	}
	r.Outcome("parsed")
	r.Held()
	r.Sample(tag, map[string]any{"minimal": minimal, "full": texts[2].text, "structure": want})
}

// fixed lexical and structural probes: text -> canonical structure or error type
var c04Probes = []struct {
	text string
	want string
	err  jparse.ErrType
}{
	{"a /b/ c", "(/ (/ `a` `b`) `c`)", 0},
	{"$contains(s, /b/)", "(call $contains `s` /b/)", 0},
	{"a / b", "(/ `a` `b`)", 0},
	{"x ~> /b/", "(~> `x` /b/)", 0},
	{"a = /b/", "(= `a` /b/)", 0},
	{"and.or", "(path `and` `or`)", 0},
	{"a and and", "(and `a` `and`)", 0},
	{"in in in", "(in `in` `in`)", 0},
	{"or or or", "(or `or` `or`)", 0},
	{"and", "`and`", 0},
	{"a.and.b", "(path `a` `and` `b`)", 0},
	{"$v := a ? b : c", "(:= $v (? `a` `b` `c`))", 0},
	{"a ? b : $x := 2", "(? `a` `b` (:= $x 2))", 0},
	{"$x := $y := 1", "(:= $x (:= $y 1))", 0},
	{"a ? b : c ? d : e", "(? `a` `b` (? `c` `d` `e`))", 0},
	{"a or b and c", "(or `a` (and `b` `c`))", 0},
	{"a and b or c", "(or (and `a` `b`) `c`)", 0},
	{"a = b and c", "(and (= `a` `b`) `c`)", 0},
	{"a & b = c", "(= (& `a` `b`) `c`)", 0},
	{"a + b & c", "(& (+ `a` `b`) `c`)", 0},
	{"a - b - c", "(- (- `a` `b`) `c`)", 0},
	{"a ~> $f ~> $g", "(~> (~> `a` $f) $g)", 0},
	{"a.b[0]", "(path `a` (pred `b` 0))", 0},
	{"(a.b)[0]", "(pred (path `a` `b`) 0)", 0},
	{"a.b(c)", "(path `a` (call `b` `c`))", 0},
	{"a = b^(c)", "(sort (= `a` `b`) (term _ `c`))", 0},
	{"a.b{\"k\":c}", "(group (path `a` `b`) (kv \"k\" `c`))", 0},
	{"a*b{\"k\":c}", "(* `a` (group `b` (kv \"k\" `c`)))", 0},
	{"a\n+\tb", "(+ `a` `b`)", 0},
	{"\"s\"&'s'", "(& \"s\" \"s\")", 0},
	{"a := 1", "", jparse.ErrIllegalAssignment},
	{"a ? b : c := d", "", jparse.ErrIllegalAssignment},
	{"a{\"k\":b}[0]", "", jparse.ErrGroupPredicate},
	{"a{\"k\":b}{\"j\":c}", "", jparse.ErrGroupGroup},
}

func c04Probe(r *fw.Rec, i int) {
	p := c04Probes[i]
	r.Begin(p.text, "")
	r.Tag("probe")
	r.Nontrivial(p.text)
	var node jparse.Node
	var err error
	if pi := fw.Guard(func() { node, err = jparse.Parse(p.text) }); pi != nil {
		r.Violation("panic:Parse", pi.Value, nil)
		return
	}
	if p.want == "" {
		pe, ok := err.(*jparse.Error)
		if !ok || pe.Type != p.err {
			r.Violation("probe-error", fmt.Sprintf("%q: want parse error type %d, got %v", p.text, p.err, err), nil)
			return
		}
		r.Outcome("parse-error")
		r.Held()
		return
	}
	if err != nil {
		r.Violation("probe-rejected", fmt.Sprintf("%q does not parse: %v", p.text, err), nil)
		return
	}
	if got := canonP(node); got != p.want {
		r.Violation("probe-structure", fmt.Sprintf("%q parses as %s, want %s", p.text, got, p.want), nil)
		return
	}
	r.Outcome("parsed")
	r.Held()
	r.Sample("probe", map[string]any{"text": p.text, "structure": p.want})
}

// evaluation equivalence: arithmetic/comparison/boolean/concatenation chains
// whose value separates the possible groupings
func c04EvalChain(r *fw.Rec, rr *prng.R) {
	ops := []string{"+", "-", "*", "/", "%", "&", "=", "<", ">=", "and", "or"}
	n := rr.Range(2, 5)
	vals := []float64{2, 3, 4, 5, 7, 9, 10}
	var build func(lo, hi int, leaves []jast.Node, os []string) jast.Node
	build = func(lo, hi int, leaves []jast.Node, os []string) jast.Node {
		if lo == hi {
			return leaves[lo]
		}
		k := rr.Range(lo, hi-1)
		return &jast.Bin{Op: os[k], L: build(lo, k, leaves, os), R: build(k+1, hi, leaves, os)}
	}
	leaves := make([]jast.Node, n+1)
	os := make([]string, n)
	for i := range leaves {
		leaves[i] = &jast.Num{V: vals[rr.Intn(len(vals))]}
	}
	for i := range os {
		os[i] = ops[rr.Intn(len(ops))]
	}
	tree := build(0, n, leaves, os)
	norm := jast.Normalize(tree)
	minimal := jast.Print(norm, jast.Style{Space: rr.Intn(2)})
	full := jast.Print(jast.Normalize(fullParen(tree)), jast.Style{})
	r.Begin(minimal, full)
	r.Tag("eval-equivalence")
	r.Nontrivial(minimal)
	mv, merr := refeval.Eval(norm, nil, nil)
	for _, t := range []string{minimal, full} {
		r.Evals(1)
		o := obs.Run(t, nil)
		if res := judge.Compare(o, mv, merr, judge.Opts{}); !res.OK {
			r.Violation("eval-grouping", fmt.Sprintf("%q (fully parenthesised %q): %s", minimal, full, res.Detail), nil)
			return
		}
	}
	r.Outcome("evaluated")
	r.Held()
}

func init() {
	k := int64(len(c04Ops))
	n2 := k * k * 2 * c04LeafKinds * 3
	n3 := k * k * k * 5
	fw.Register(&fw.Prop{
		ID: "C04", Title: "The parse is fixed by JSONata precedence, associativity and parentheses",
		Rule: fmt.Sprintf("cases: (a) exhaustive: every ordered pair of the 23 infix/postfix operators (. [ ] ( ) { } * / %% + - & = != < <= > >= in ^( ) ~> and or ?: :=) in both bracketings, with each of the three operand positions holding each of the 13 operand kinds (name, variable, number, string, call, the bare words and/or/in, *, **, a lambda, a transform, a negated name) (%d trees) and every ordered triple in all five bracketings (%d trees), operands rotating over the 13 operand kinds; each tree is printed with minimal parentheses (decided by the harness's own precedence table), with spaces and single quotes, fully parenthesised and with random whitespace, and each text must parse to the tree's structure; ", n2, n3) +
			"(b) 34 fixed probes: '/' as division vs regex, and/or/in as field names, right-associative := and else-branch, equal-precedence grouping, and the four structural errors; (c) PRNG-generated trees of 4..8 operators; (d) arithmetic/comparison/boolean chains evaluated minimally and fully parenthesised against the reference model. " +
			"Oracle: canonical S-expression of the exported AST (single-expression blocks stripped, nested paths spliced, stacked predicates merged) vs the canonical form of the generating tree. non-trivial = every case; distinct by program text",
		Assumptions: []string{"prefix minus is an operand form, not a chain operator; it binds tighter than * / % and looser than . (the statement does not rank it; this is the reference implementation's and the repaired port's rule)", "a regex literal directly after an opening bracket is not generated (port and jsonata-js lex '/' as division there)"},
		Plan: func(tier string, seed uint64) *fw.Plan {
			nRand := int64(20000)
			if tier == "thorough" {
				nRand = 400000
			}
			np := int64(len(c04Probes))
			return &fw.Plan{N: n2 + n3 + np + nRand,
				Subspaces: []string{fmt.Sprintf("%d operator-pair trees", n2), fmt.Sprintf("%d operator-triple trees", n3), fmt.Sprintf("%d probes", np)},
				Run: func(i int64, r *fw.Rec) {
					rr := prng.New(seed, 0xC04, uint64(i))
					switch {
					case i < n2:
						j := i
						shape := int(j % 2)
						j /= 2
						kind := int(j % c04LeafKinds)
						j /= c04LeafKinds
						posn := int(j % 3)
						j /= 3
						o2 := c04Ops[j%k]
						o1 := c04Ops[j/k]
						leaves := c04Leaves(o1, o2, "", int(i))
						if _, isVar := leaves[posn].(*jast.Var); !isVar || (posn < 2 && []string{o1, o2}[posn] != ":=") {
							leaves[posn] = c04Leaf(kind + c04LeafKinds*int(i%97))
						}
						tree, ok := c04Tree([]string{o1, o2}, shape, leaves)
						if !ok {
							r.Count("inexpressible_combinations_(assignment_to_non-variable)", 1)
							return
						}
						c04Check(r, tree, "pairs", rr)
					case i < n2+n3:
						j := i - n2
						shape := int(j % 5)
						j /= 5
						o3 := c04Ops[j%k]
						o2 := c04Ops[j/k%k]
						o1 := c04Ops[j/k/k]
						leaves := c04Leaves(o1, o2, o3, int(i))
						tree, ok := c04Tree([]string{o1, o2, o3}, shape, leaves)
						if !ok {
							r.Count("inexpressible_combinations_(assignment_to_non-variable)", 1)
							return
						}
						c04Check(r, tree, "triples", nil)
					case i < n2+n3+np:
						c04Probe(r, int(i-n2-n3))
					default:
						if i%4 == 0 {
							c04EvalChain(r, rr)
							return
						}
						n := rr.Range(4, 8)
						ops := make([]string, n)
						for j := range ops {
							ops[j] = c04Ops[rr.Intn(len(c04Ops))]
						}
						tree, ok := c04Random(rr, ops, 0)
						if !ok {
							r.Count("inexpressible_combinations_(assignment_to_non-variable)", 1)
							return
						}
						c04Check(r, tree, "random-chains", rr)
					}
				}}
		},
	})
}

// c04Leaves picks operands; the left operand of := is a variable.
func c04Leaves(o1, o2, o3 string, salt int) []jast.Node {
	ls := []jast.Node{c04Leaf(salt), c04Leaf(salt + 1), c04Leaf(salt + 2), c04Leaf(salt + 3)}
	for i, o := range []string{o1, o2, o3} {
		if o == ":=" {
			ls[i] = &jast.Var{Name: fmt.Sprintf("w%d", i)}
		}
	}
	return ls
}

func c04Random(rr *prng.R, ops []string, d int) (jast.Node, bool) {
	if len(ops) == 0 {
		return c04Leaf(rr.Intn(c04LeafKinds) + c04LeafKinds*rr.Intn(len(c04Strings))), true
	}
	k := rr.Intn(len(ops))
	var l, r jast.Node
	var ok bool
	if ops[k] == ":=" {
		if k != 0 {
			// the left operand must be a variable: put the operators on the right
			l = &jast.Var{Name: "w"}
			r, ok = c04Random(rr, append(append([]string{}, ops[:k]...), ops[k+1:]...), d+1)
			if !ok {
				return nil, false
			}
			return mk(":=", l, r)
		}
		l = &jast.Var{Name: "w"}
	} else {
		l, ok = c04Random(rr, ops[:k], d+1)
		if !ok {
			return nil, false
		}
	}
	r, ok = c04Random(rr, ops[k+1:], d+1)
	if !ok {
		return nil, false
	}
	return mk(ops[k], l, r)
}
