package props

import (
	"fmt"
	"runtime"
	"sync"
	"sync/atomic"
	"time"

	"github.com/anishathalye/porcupine"
	jsonata "github.com/blues/jsonata-go"

	"verif/harness/fw"
	"verif/harness/gen"
	"verif/harness/jast"
	"verif/harness/obs"
	"verif/harness/prng"
)

// C06: concurrent evaluations are isolated and race-free. Runs under the Go
// race detector (the worker is built with -race); the driver turns every race
// report that has a repository frame into a violation.

// programs whose correct result depends on the goroutine's own input
var c06Focus = []string{
	`a.$substringBefore("z")`, `a.$substringAfter("-")`, `a.$uppercase()`, `a.$length()`, `a.$pad(12, "#")`, `a.$substring(2)`, `a.$contains("q")`,
	`a.$split("-")`, `a.$string()`, `a.$trim()`, `a.$lowercase()`, `n.$abs()`, `n.$power(2)`, `n.$string()`, `n.$formatBase(2)`,
	`a.$substringBefore($$.b.c.$substringBefore("z"))`, `$substringBefore(?, "-")(a)`, `$pad(?, 10)(a)`,
	`n ~> $power(2)`, `a ~> $uppercase() ~> $length()`, `n ~> $string() ~> $pad(8)`, `a ~> $split("-") ~> $join("+")`,
	`($f := function($x){$x & "!"}; $f(a))`, `$map(arr, function($v){$v * n})`, `$filter(arr, function($v){$v > n})`, `$reduce(arr, function($p,$q){$p + $q}, n)`,
	`$sort(arr)`, `arr^(>$)`, `objs^(k, >v).v`, `objs{k: $sum(v)}`, `objs[v > n].k`, `$ ~> |b|{"n": n}|`, `$ ~> |objs|{"t": k & a}, "v"|`,
	`$match(a, /[a-z]+/).match`, `$replace(a, /-/, "+")`, `$contains(a, /z/)`, `a.$split(/-/)`,
	`$sum(arr) + n`, `$count(objs.v)`, `$distinct(arr)`, `$append(arr, n)`, `$zip(arr, arr)`, `$keys(b)`, `b.$lookup("c")`, `$string($)`,
	`$formatNumber(n, "#,##0.00")`, `$fromMillis(n * 1000000)`, `[1..5].($ * n)`, `{"k": a, "v": n}`, `a & "-" & n`, `n > 3 ? a : b.c`,
	// the random-number functions, projected onto deterministic results
	`$sum($shuffle(arr)) + n`, `$random() < 2 ? a : n`, `$count($shuffle(objs))`, `$sort($shuffle(arr))`, `$shuffle(arr)^($)`, `$floor($random()) + n`,
	`$merge([b, {"n": n}])`, `$each(b, function($v, $k){$k & "=" & $v})`, `$type(a) & $type(n)`, `**.c`, `b.*`,
	// timestamps in each of the default formats of $toMillis (a table shared by all evaluations is searched)
	`$toMillis("2017-11-07") + $toMillis("2018") + n`, `$toMillis("2018") - $toMillis("2017-11-07T10:30:00") + n`, `$toMillis("2017-11-07T10:30:00") + n - $toMillis("2017-11-07T10:30:00+0100")`,
	`[$toMillis("2017-11-07T10:30:00+0100") + n, $toMillis("2017-11-07")]`, `$toMillis("2017-11-07T10:30:00.000Z") + n - $toMillis("2018")`, `{"d": $toMillis("2017-11-07"), "y": $toMillis("2018") + n}`,
	`[$toMillis("2018"), $toMillis("2017-11-07T10:30:00+01:00"), $toMillis("2017-11-07"), n]`, `$fromMillis($toMillis("2017-11-07T10:30:00") + n * 1000)`, `$toMillis($fromMillis(n * 86400000, "[Y0001]-[M01]-[D01]"))`,
	// built-ins applied as bare function values (name and context are set on the function for the call)
	`a ~> $uppercase`, `a ~> $length`, `n ~> $string ~> $length`, `arr ~> $sum`, `a ~> $substringBefore("-") ~> $uppercase`, `"-" ~> $contains`, `a.("z" ~> $substringBefore)`, `a.("-" ~> $split)`,
	`n.(2 ~> $power)`, `[a ~> $lowercase, a ~> $trim, n ~> $abs]`, `$map(arr, function($v){$v ~> $string}) ~> $join`, `b.("c" ~> $lookup)`,
	// the registered variable (one Go value shared by all evaluations in configurations A, D, G)
	`$append($reg.list, n)`, `$append($reg.list, arr)`, `$sort($reg.list)`, `$reg.list^(>$)`, `$reverse($reg.list)`, `$reg ~> |$|{"n": n}|`, `$reg.list[0] + n`, `$zip($reg.list, arr)`,
	`$distinct($reg.list)`, `$sum($shuffle($reg.list)) + n`, `$merge([$reg, b])`, `$reg.list.($ * n)`, `$map($reg.list, function($v){$v + n})`, `$reduce($reg.list, $append, arr)`, `$append(objs, $reg)`,
}

// spare returns the array with unused capacity behind it, as the JSON decoder
// leaves arrays: an evaluation that appends in place would write there.
func spare(a []interface{}) []interface{} {
	return append(make([]interface{}, 0, len(a)+5), a...)
}

func c06Input(g int) interface{} {
	return map[string]interface{}{
		"a":    fmt.Sprintf("g%dq-zebra-%d", g, g*7),
		"n":    float64(g + 2),
		"b":    map[string]interface{}{"c": fmt.Sprintf("low%dzed", g)},
		"arr":  spare([]interface{}{float64(3 + g), 1.0, float64(2 * g)}),
		"objs": spare([]interface{}{map[string]interface{}{"k": "x", "v": float64(g)}, map[string]interface{}{"k": "y", "v": 5.0}, map[string]interface{}{"k": "x", "v": 7.0}}),
	}
}

var c06Yields, c06Spins int64

func c06InstallYield(seed uint64, level int) {
	if level == 0 {
		jsonata.VerifYield = func(site, name string) { atomic.AddInt64(&c06Yields, 1) }
		return
	}
	var ctr uint64
	p := uint64(20) // 5%
	if level == 2 {
		p = 2 // 50%
	}
	jsonata.VerifYield = func(site, name string) {
		atomic.AddInt64(&c06Yields, 1)
		x := atomic.AddUint64(&ctr, 0x9e3779b97f4a7c15)
		x ^= x >> 31
		x *= 0xbf58476d1ce4e5b9
		x ^= x >> 29
		if x%p == 0 {
			atomic.AddInt64(&c06Spins, 1)
			if x&1024 == 0 {
				runtime.Gosched()
			} else {
				t := time.Now()
				for time.Since(t) < time.Duration(1+x%40)*time.Microsecond {
				}
			}
		}
	}
}

type c06Round struct {
	cfg   string
	G     int
	delay int
	progs []string
}

func c06Plan(i int64, tier string, seed uint64) c06Round {
	r := prng.New(seed, 0xC06, uint64(i))
	cfgs := []string{"A", "B", "D", "E", "F", "G"}
	gs := []int{8}
	if tier == "thorough" {
		cfgs = []string{"A", "B", "C", "D", "E", "F", "G"}
		gs = []int{2, 4, 8, 16, 32}
	}
	rd := c06Round{cfg: cfgs[i%int64(len(cfgs))], G: gs[(i/int64(len(cfgs)))%int64(len(gs))], delay: int(i/3) % 3}
	np := 6
	for k := 0; k < np; k++ {
		if r.Intn(3) == 0 {
			// generated deterministic program without map-order dependence
			for {
				g := gen.NewChaos(r, 3, true)
				tree, s := g.Program(jast.Style{Space: 1})
				tr := jast.TraitsOf(tree)
				if !tr.Iterates && !tr.MultiPair {
					rd.progs = append(rd.progs, s)
					break
				}
			}
		} else {
			rd.progs = append(rd.progs, c06Focus[r.Intn(len(c06Focus))])
		}
	}
	return rd
}

func init() {
	fw.Register(&fw.Prop{
		ID: "C06", Title: "Concurrent evaluations are isolated and race-free", Race: true, Workers: 4, GoMaxProcs: 8,
		Rule: "each case is one round: G goroutines (quick: 8; thorough: 2,4,8,16,32) each evaluate 6 programs (context-defaulting built-ins under paths, nested contexts, partials, chains, lambdas, higher-order functions, sorts, groupings, transforms, regexes, and generated deterministic programs) some hundred times on goroutine-specific inputs whose correct results differ. " +
			"Configurations: A one shared Expr per program, with a registered variable (an object holding an array with spare capacity, as decoded JSON has) read by part of the programs; B one Expr per goroutine; C Compile inside the loop; D all goroutines share one input document and one registered variable; E package-level RegisterVars/RegisterExts with unique values concurrent with Compile, the compiled Expr then evaluated for $name; F function values (typed and untyped lambdas, partials, a composition, a regex, a transform) returned by one evaluation and registered under a different name in each goroutine's expressions, all goroutines calling the same function objects (outcomes compared including error texts, which carry the calling name); G as A, but the shared Exprs are freshly compiled so that their very first evaluations run concurrently. " +
			"Delay injection at the verif yield points (after the call context is set, on entry to a Go callable): none / 5% / 50% Gosched or 1..40 us spin. Monitors: (1) Go race detector reports with a repository frame; (2) every goroutine's outcome equals the outcome of the same (program, input) evaluated alone before the goroutines start; " +
			"(3) the recorded Register/Compile history is checked for linearizability per name with porcupine (register model), plus the snapshot invariant that two names registered in one call are always seen together. non-trivial = every round; distinct by round parameters",
		Assumptions: []string{"Expr-level Register* is not run concurrently with Eval of the same Expr (not promised by the property)", "a porcupine timeout (60 s) is inconclusive, not a violation"},
		Plan: func(tier string, seed uint64) *fw.Plan {
			n := int64(24)
			if tier == "thorough" {
				n = 600
			}
			return &fw.Plan{N: n, CPUBudget: 600,
				Run: func(i int64, r *fw.Rec) { c06Run(i, tier, seed, r) },
				Fini: func(r *fw.Rec) {
					r.Count("yield_points_passed", atomic.LoadInt64(&c06Yields))
					r.Count("delays_injected", atomic.LoadInt64(&c06Spins))
				}}
		},
	})
}

func c06Run(i int64, tier string, seed uint64, r *fw.Rec) {
	rd := c06Plan(i, tier, seed)
	desc := fmt.Sprintf("round %d cfg=%s G=%d delay=%d progs=%q", i, rd.cfg, rd.G, rd.delay, rd.progs)
	r.Begin(desc, "")
	r.Tag("cfg:"+rd.cfg, fmt.Sprintf("G:%d", rd.G), fmt.Sprintf("delay:%d", rd.delay))
	r.Nontrivial(desc)
	c06InstallYield(seed+uint64(i), rd.delay)
	if rd.cfg == "E" {
		c06Registry(i, rd, r)
		return
	}
	if rd.cfg == "F" {
		c06SharedFunctions(i, rd, r)
		return
	}
	iters := 120
	// inputs and sequential baseline
	inputs := make([]interface{}, rd.G)
	shared := c06Input(0)
	for g := range inputs {
		if rd.cfg == "D" {
			inputs[g] = shared
		} else {
			inputs[g] = c06Input(g)
		}
	}
	reg := map[string]interface{}{"list": spare([]interface{}{3.0, 1.0, 2.0}), "k": "x"}
	exprs := make([]*jsonata.Expr, len(rd.progs))
	for k, p := range rd.progs {
		e, o := obs.Compile(p)
		if e == nil {
			if o.Kind == "panic" {
				r.Violation("compile-panic", o.String(), nil)
				return
			}
			continue // a generated program that does not compile is skipped
		}
		if rd.cfg == "A" || rd.cfg == "D" || rd.cfg == "G" {
			e.RegisterVars(map[string]interface{}{"reg": reg})
		}
		exprs[k] = e
	}
	base := make([][]string, rd.G)
	for g := 0; g < rd.G; g++ {
		base[g] = make([]string, len(rd.progs))
		for k, e := range exprs {
			if e == nil {
				continue
			}
			base[g][k] = digest(obs.Eval(e, inputs[g]), false, false)
		}
	}
	if rd.cfg == "G" {
		// the shared expressions meet their very first evaluations concurrently:
		// the baseline above used them, so compile (and register on) fresh ones
		for k, p := range rd.progs {
			if exprs[k] == nil {
				continue
			}
			e, _ := obs.Compile(p)
			if e != nil {
				e.RegisterVars(map[string]interface{}{"reg": reg})
			}
			exprs[k] = e
		}
	}
	var wg sync.WaitGroup
	var mism int64
	var evals int64
	var overlapped int64
	var active int64
	type mm struct{ g, k int; got, want string }
	var mu sync.Mutex
	var first *mm
	start := make(chan struct{})
	for g := 0; g < rd.G; g++ {
		wg.Add(1)
		go func(g int) {
			defer wg.Done()
			mine := exprs
			if rd.cfg == "B" || rd.cfg == "C" {
				mine = make([]*jsonata.Expr, len(rd.progs))
				for k, p := range rd.progs {
					if exprs[k] != nil {
						mine[k], _ = obs.Compile(p)
					}
				}
			}
			<-start
			for it := 0; it < iters; it++ {
				for k := range rd.progs {
					e := mine[k]
					if e == nil {
						continue
					}
					if rd.cfg == "C" {
						e, _ = obs.Compile(rd.progs[k])
						if e == nil {
							continue
						}
					}
					if atomic.AddInt64(&active, 1) > 1 {
						atomic.AddInt64(&overlapped, 1)
					}
					o := obs.Eval(e, inputs[g])
					atomic.AddInt64(&active, -1)
					atomic.AddInt64(&evals, 1)
					if d := digest(o, false, false); d != base[g][k] {
						atomic.AddInt64(&mism, 1)
						mu.Lock()
						if first == nil {
							first = &mm{g, k, d, base[g][k]}
						}
						mu.Unlock()
					}
				}
			}
		}(g)
	}
	close(start)
	wg.Wait()
	r.Evals(int(evals))
	r.Count("concurrent_evaluations", evals)
	r.Count("evaluations_that_overlapped_another", overlapped)
	r.Outcome("round")
	if mism > 0 {
		r.Violation("cross-talk", fmt.Sprintf("%d of %d concurrent evaluations differed from the sequential baseline; first: goroutine %d program %q gave %q, alone it gives %q",
			mism, evals, first.g, rd.progs[first.k], clipS(first.got), clipS(first.want)), map[string]any{"round": desc})
		return
	}
	if rd.cfg == "D" {
		if gen.JSON(shared) != gen.JSON(c06Input(0)) {
			r.Violation("shared-input-modified", "the shared input document changed during concurrent evaluation", nil)
			return
		}
	}
	r.Held()
	r.Sample("round:"+rd.cfg, map[string]any{"cfg": rd.cfg, "goroutines": rd.G, "delay_level": rd.delay, "programs": rd.progs, "evaluations": evals, "overlapping": overlapped})
}

// ---- configuration F: function values shared between expressions
//
// Function values returned by one evaluation are registered (RegisterVars)
// under a different name in each goroutine's own expressions; all goroutines
// call the same function objects at the same time.
var c06FnSources = []string{`function($x)<n:n>{$x * 2}`, `function($x){$x & "!"}`, `$substringBefore(?, "-")`, `($string ~> $uppercase)`, `/[a-z]+/`, `|b|{"t":1}|`, `$pad(?, 10)`,
	// stored expressions that bind a variable: the binding belongs to the call
	`($c := 0; $append(?, $c := $c + 1))`, `($c := 0; |$|{"n": $c := $c + 1}|)`, `($c := 0; |($c := $c + 1; b)|{"t": $c}, [($c := $c + 1; "c")]|)`,
	`($c := 0; function($x){($c := $c + 1; [$x, $c])})`}

func c06SharedFunctions(i int64, rd c06Round, r *fw.Rec) {
	vals := make([]interface{}, len(c06FnSources))
	for k, src := range c06FnSources {
		v, err := jsonata.MustCompile(src).Eval(nil)
		if err != nil {
			r.Inconclusive("function source " + src + " did not evaluate: " + err.Error())
			return
		}
		vals[k] = v
	}
	type call struct {
		e    *jsonata.Expr
		want string
	}
	full := func(o obs.Outcome) string {
		d := digest(o, false, false)
		if o.Err != nil {
			d += " | " + o.Err.Error() // error texts carry the name the function was called by
		}
		return d
	}
	calls := make([][]call, rd.G)
	inputs := make([]interface{}, rd.G)
	for g := 0; g < rd.G; g++ {
		inputs[g] = c06Input(g)
		for k := range vals {
			name := fmt.Sprintf("fn%d_%d", g, k)
			for _, arg := range []string{"a", "n", "$"} {
				e := jsonata.MustCompile("$" + name + "(" + arg + ")")
				if err := e.RegisterVars(map[string]interface{}{name: vals[k]}); err != nil {
					r.Inconclusive("RegisterVars failed: " + err.Error())
					return
				}
				calls[g] = append(calls[g], call{e, full(obs.Eval(e, inputs[g]))})
			}
		}
	}
	var wg sync.WaitGroup
	var mism, evals int64
	var mu sync.Mutex
	firstMsg := ""
	start := make(chan struct{})
	for g := 0; g < rd.G; g++ {
		wg.Add(1)
		go func(g int) {
			defer wg.Done()
			<-start
			for it := 0; it < 60; it++ {
				for _, c := range calls[g] {
					got := full(obs.Eval(c.e, inputs[g]))
					atomic.AddInt64(&evals, 1)
					if got != c.want {
						atomic.AddInt64(&mism, 1)
						mu.Lock()
						if firstMsg == "" {
							firstMsg = fmt.Sprintf("goroutine %d: %s gave %q, alone it gives %q", g, c.e.String(), clipS(got), clipS(c.want))
						}
						mu.Unlock()
					}
				}
			}
		}(g)
	}
	close(start)
	wg.Wait()
	r.Evals(int(evals))
	r.Count("concurrent_evaluations", evals)
	r.Outcome("round")
	if mism > 0 {
		r.Violation("cross-talk:shared-function-value", fmt.Sprintf("%d of %d concurrent calls of shared function values differed from the sequential baseline; first: %s", mism, evals, firstMsg), nil)
		return
	}
	r.Held()
	r.Sample("round:F", map[string]any{"cfg": "F", "goroutines": rd.G, "functions": c06FnSources, "evaluations": evals})
}

// ---- configuration E: registry visibility under concurrency

type regIn struct {
	Write bool
	Name  string
	Val   int
}

func c06Registry(i int64, rd c06Round, r *fw.Rec) {
	// names are unique per process and round: the package registry cannot be reset
	names := make([]string, 3)
	for k := range names {
		names[k] = fmt.Sprintf("c06v%d_%d_%d", r.Shard(), i, k)
	}
	pairA, pairB := fmt.Sprintf("c06pa%d_%d", r.Shard(), i), fmt.Sprintf("c06pb%d_%d", r.Shard(), i)
	fnName := fmt.Sprintf("c06f%d_%d", r.Shard(), i)
	var ops []porcupine.Operation
	var mu sync.Mutex
	t0 := time.Now()
	now := func() int64 { return int64(time.Since(t0)) }
	record := func(client int, in regIn, call int64, out int, ret int64) {
		mu.Lock()
		ops = append(ops, porcupine.Operation{ClientId: client, Input: in, Call: call, Output: out, Return: ret})
		mu.Unlock()
	}
	var wg sync.WaitGroup
	var pairViol, fnViol int64
	var detail atomic.Value
	writers := rd.G / 2
	if writers < 1 {
		writers = 1
	}
	var verCtr int64
	start := make(chan struct{})
	for w := 0; w < writers; w++ {
		wg.Add(1)
		go func(w int) {
			defer wg.Done()
			<-start
			for it := 0; it < 40; it++ {
				name := names[(w+it)%len(names)]
				v := int(atomic.AddInt64(&verCtr, 1))
				call := now()
				err := jsonata.RegisterVars(map[string]interface{}{name: float64(v)})
				ret := now()
				if err != nil {
					continue
				}
				record(w, regIn{Write: true, Name: name, Val: v}, call, 0, ret)
				// two names always registered together with the same value
				pv := float64(atomic.AddInt64(&verCtr, 1))
				jsonata.RegisterVars(map[string]interface{}{pairA: pv, pairB: pv})
				fv := float64(atomic.AddInt64(&verCtr, 1))
				jsonata.RegisterExts(map[string]jsonata.Extension{fnName: {Func: func() float64 { return fv }}})
			}
		}(w)
	}
	readProg := "[" + "$" + names[0] + ", $" + names[1] + ", $" + names[2] + "]"
	_ = readProg
	for c := 0; c < rd.G-writers+1; c++ {
		wg.Add(1)
		go func(c int) {
			defer wg.Done()
			<-start
			for it := 0; it < 60; it++ {
				name := names[(c+it)%len(names)]
				call := now()
				e, err := jsonata.Compile("$" + name)
				ret := now()
				if err != nil {
					continue
				}
				v, err := e.Eval(nil)
				out := -1
				if err == nil {
					if f, ok := v.(float64); ok {
						out = int(f)
					}
				}
				record(100+c, regIn{Name: name}, call, out, ret)
				// snapshot invariant
				e2, err := jsonata.Compile(fmt.Sprintf(`[[$%s], [$%s]]`, pairA, pairB))
				if err == nil {
					if v2, err := e2.Eval(nil); err == nil {
						n := obs.Normalize(v2, nil)
						arr, _ := n.([]interface{})
						if len(arr) == 2 && !obs.Equal(arr[0], arr[1]) {
							atomic.AddInt64(&pairViol, 1)
							detail.Store(obs.ShowNorm(n))
						}
					}
				}
				// a registered extension is callable by the expressions compiled afterwards
				e3, err := jsonata.Compile("$" + fnName + "()")
				if err == nil {
					if v3, err := e3.Eval(nil); err == nil {
						if _, ok := v3.(float64); !ok {
							atomic.AddInt64(&fnViol, 1)
						}
					}
				}
			}
		}(c)
	}
	close(start)
	wg.Wait()
	r.Evals(len(ops))
	r.Count("registry_history_operations", int64(len(ops)))
	r.Outcome("round")
	if pairViol > 0 {
		d, _ := detail.Load().(string)
		r.Violation("registry-snapshot-torn", fmt.Sprintf("two names that are only ever registered together with one value were seen with different values in %d compiled expressions, e.g. %s", pairViol, d), nil)
		return
	}
	if fnViol > 0 {
		r.Violation("registry-ext-result", "a registered extension returned a non-number", nil)
		return
	}
	model := porcupine.Model{
		Partition: func(history []porcupine.Operation) [][]porcupine.Operation {
			m := map[string][]porcupine.Operation{}
			for _, op := range history {
				n := op.Input.(regIn).Name
				m[n] = append(m[n], op)
			}
			var out [][]porcupine.Operation
			for _, v := range m {
				out = append(out, v)
			}
			return out
		},
		Init: func() interface{} { return -1 },
		Step: func(state, input, output interface{}) (bool, interface{}) {
			in := input.(regIn)
			if in.Write {
				return true, in.Val
			}
			return output.(int) == state.(int), state
		},
		DescribeOperation: func(input, output interface{}) string {
			in := input.(regIn)
			if in.Write {
				return fmt.Sprintf("Register(%s=%d)", in.Name, in.Val)
			}
			return fmt.Sprintf("Compile+Eval($%s) -> %d", in.Name, output.(int))
		},
	}
	res, info := porcupine.CheckOperationsVerbose(model, ops, 60*time.Second)
	switch res {
	case porcupine.Unknown:
		r.Inconclusive("porcupine timed out on the registry history")
		return
	case porcupine.Illegal:
		_ = info
		r.Violation("registry-not-linearizable", fmt.Sprintf("the history of %d package-level RegisterVars / Compile+Eval operations is not linearizable against a per-name register", len(ops)), map[string]any{"ops": len(ops)})
		return
	}
	r.Count("porcupine_histories_ok", 1)
	r.Held()
	r.Sample("round:E", map[string]any{"cfg": "E", "goroutines": rd.G, "history_operations": len(ops), "porcupine": "ok"})
}
