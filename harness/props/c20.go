package props

import (
	"errors"
	"fmt"
	"reflect"
	"strings"

	jsonata "github.com/blues/jsonata-go"
	"github.com/blues/jsonata-go/jtypes"

	"verif/harness/fw"
	"verif/harness/obs"
	"verif/harness/prng"
)

// C20: extensions - argument passing, typed failures, registry visibility.

type ptype struct {
	Name string
	T    reflect.Type
	Opt  bool
}

var (
	tFloat   = reflect.TypeOf(float64(0))
	tInt     = reflect.TypeOf(int(0))
	tUint8   = reflect.TypeOf(uint8(0))
	tString  = reflect.TypeOf("")
	tBool    = reflect.TypeOf(true)
	tBytes   = reflect.TypeOf([]byte(nil))
	tIface   = reflect.TypeOf((*interface{})(nil)).Elem()
	tValue   = reflect.TypeOf(reflect.Value{})
	tSlice   = reflect.TypeOf([]interface{}(nil))
	tMap     = reflect.TypeOf(map[string]interface{}(nil))
	tCall    = reflect.TypeOf((*jtypes.Callable)(nil)).Elem()
	tErr     = reflect.TypeOf((*error)(nil)).Elem()
	c20Types = []ptype{
		{"float64", tFloat, false}, {"int", tInt, false}, {"uint8", tUint8, false}, {"string", tString, false}, {"bool", tBool, false},
		{"[]byte", tBytes, false}, {"interface{}", tIface, false}, {"reflect.Value", tValue, false}, {"[]interface{}", tSlice, false},
		{"map[string]interface{}", tMap, false}, {"Callable", tCall, false},
		{"OptionalInt", reflect.TypeOf(jtypes.OptionalInt{}), true}, {"OptionalFloat64", reflect.TypeOf(jtypes.OptionalFloat64{}), true},
		{"OptionalString", reflect.TypeOf(jtypes.OptionalString{}), true}, {"OptionalBool", reflect.TypeOf(jtypes.OptionalBool{}), true},
		{"OptionalInterface", reflect.TypeOf(jtypes.OptionalInterface{}), true}, {"OptionalValue", reflect.TypeOf(jtypes.OptionalValue{}), true},
		{"OptionalCallable", reflect.TypeOf(jtypes.OptionalCallable{}), true},
	}
	c20Variadic = []int{0, 1, 3, 4, 6, 7} // element types usable in a variadic tail
)

// argument kinds supplied from JSONata
type akind struct {
	Name string
	Text string
}

var c20Args = []akind{
	{"number", "7"}, {"fraction", "2.5"}, {"int", "$count([1,2,3])"}, {"string", `"str"`}, {"boolean", "true"},
	{"array", `[1,"a"]`}, {"object", `{"k":1}`}, {"function", "$sum"}, {"missing", "nothing"}, {"big", "300"},
	// a function that went through a library function and is held by value
	{"function-by-value", "$single($sum, function($f){true})"},
	// an array as a library function builds it (a []string)
	{"library-array", `$split("p,q", ",")`},
}

// describe renders a recorded Go argument.
func describe(v reflect.Value) string {
	if !v.IsValid() {
		return "invalid"
	}
	t := v.Type()
	switch {
	case t == tValue:
		inner := v.Interface().(reflect.Value)
		if !inner.IsValid() {
			return "Value(invalid)"
		}
		return "Value(" + describe(inner) + ")"
	case strings.HasPrefix(t.String(), "jtypes.Optional"):
		pv := reflect.New(t) // arguments are not addressable: inspect a copy
		pv.Elem().Set(v)
		set := pv.Interface().(jtypes.Optional).IsSet()
		if !set {
			return t.Name() + "{unset}"
		}
		return t.Name() + "{" + describe(v.Field(1)) + "}"
	case t.Implements(tCall):
		if v.Kind() == reflect.Interface && v.IsNil() {
			return "nil-callable"
		}
		return "callable"
	}
	switch v.Kind() {
	case reflect.Interface:
		if v.IsNil() {
			return "nil"
		}
		return "iface(" + describe(v.Elem()) + ")"
	case reflect.Ptr:
		if v.Type().Implements(tCall) {
			return "callable"
		}
		if v.IsNil() {
			return "nilptr"
		}
	case reflect.Float64:
		return fmt.Sprintf("float64:%v", v.Float())
	case reflect.Int:
		return fmt.Sprintf("int:%d", v.Int())
	case reflect.Uint8:
		return fmt.Sprintf("uint8:%d", v.Uint())
	case reflect.String:
		return "string:" + v.String()
	case reflect.Bool:
		return fmt.Sprintf("bool:%v", v.Bool())
	case reflect.Slice:
		if t == tBytes {
			return "[]byte:" + string(v.Bytes())
		}
		return fmt.Sprintf("slice:%s", obs.Show(v.Interface()))
	case reflect.Map:
		return fmt.Sprintf("map:%s", obs.Show(v.Interface()))
	}
	if reflect.PtrTo(t).Implements(tCall) {
		return "callable"
	}
	return "other:" + t.String()
}

// convert is the statement's conversion table: the expected description of an
// argument of kind a converted to a (non-optional) parameter type, or ok=false
// for an argument type error.
func convert(a akind, t reflect.Type) (string, bool) {
	raw := map[string]string{"number": "float64:7", "fraction": "float64:2.5", "int": "int:3", "string": "string:str", "boolean": "bool:true",
		"array": `slice:[1,"a"]`, "object": `map:{"k":1}`, "function": "callable", "function-by-value": "callable", "library-array": `slice:["p","q"]`, "big": "float64:300"}[a.Name]
	num := a.Name == "number" || a.Name == "fraction" || a.Name == "int" || a.Name == "big"
	numVal := map[string]float64{"number": 7, "fraction": 2.5, "int": 3, "big": 300}[a.Name]
	if a.Name == "missing" {
		switch t {
		case tIface:
			return "nil", true
		case tValue:
			return "Value(invalid)", true
		}
		return "", false
	}
	switch t {
	case tIface:
		return "iface(" + raw + ")", true
	case tValue:
		return "Value(" + raw + ")", true
	case tFloat:
		if num {
			return fmt.Sprintf("float64:%v", numVal), true
		}
	case tInt:
		if num && numVal == float64(int(numVal)) {
			return fmt.Sprintf("int:%d", int(numVal)), true
		}
		if num {
			return "int:?", true // non-integral: Go's conversion truncates; not judged
		}
	case tUint8:
		if num && numVal == float64(uint8(numVal)) {
			return fmt.Sprintf("uint8:%d", uint8(numVal)), true
		}
		if num {
			return "uint8:?", true
		}
	case tString:
		if a.Name == "string" {
			return raw, true
		}
	case tBool:
		if a.Name == "boolean" {
			return raw, true
		}
	case tBytes:
		if a.Name == "string" {
			return "[]byte:str", true
		}
	case tSlice:
		if a.Name == "array" || a.Name == "library-array" {
			return raw, true
		}
	case tMap:
		if a.Name == "object" {
			return raw, true
		}
	case tCall:
		if a.Name == "function" || a.Name == "function-by-value" {
			return "callable", true
		}
	}
	return "", false
}

var optInner = map[string]reflect.Type{"OptionalInt": tInt, "OptionalFloat64": tFloat, "OptionalString": tString, "OptionalBool": tBool,
	"OptionalInterface": tIface, "OptionalValue": tValue, "OptionalCallable": tCall}

func convertParam(a akind, p ptype) (string, bool) {
	if !p.Opt {
		return convert(a, p.T)
	}
	if a.Name == "missing" {
		return p.T.Name() + "{unset}", true
	}
	inner := optInner[p.Name]
	d, ok := convert(a, inner)
	if !ok {
		return "", false
	}
	switch inner {
	case tIface:
		// OptionalInterface stores v.Interface(): the wrapping is gone
		d = strings.TrimSuffix(strings.TrimPrefix(d, "iface("), ")")
		if strings.HasPrefix(d, "slice:") || strings.HasPrefix(d, "map:") || d == "callable" || strings.HasPrefix(d, "float64") || strings.HasPrefix(d, "int") || strings.HasPrefix(d, "string") || strings.HasPrefix(d, "bool") {
			d = "iface(" + d + ")"
		}
	}
	return p.T.Name() + "{" + d + "}", true
}

type c20Case struct {
	params   []ptype
	variadic bool
	nOut     int
	retErr   int // 0 none, 1 plain error, 2 ErrUndefined
	undefH   bool
	ctxN     int // -1 none, else ArgCountEquals(n)
	args     []akind
	apply    bool // the call is written arg ~> $f
	noctx    bool // written $f(..).$ and evaluated without a context item
}

func c20Gen(rr *prng.R) c20Case {
	c := c20Case{ctxN: -1}
	n := rr.Intn(5)
	seenOpt := false
	for i := 0; i < n; i++ {
		p := c20Types[rr.Intn(len(c20Types))]
		if seenOpt && !p.Opt {
			p = c20Types[11+rr.Intn(7)]
		}
		if p.Opt {
			seenOpt = true
		}
		c.params = append(c.params, p)
	}
	if n > 0 && !c.params[n-1].Opt && rr.Intn(4) == 0 {
		c.variadic = true
		c.params[n-1] = c20Types[c20Variadic[rr.Intn(len(c20Variadic))]]
	}
	c.nOut = rr.Range(1, 2)
	if c.nOut == 2 {
		c.retErr = rr.Intn(3)
	}
	c.undefH = rr.Intn(3) == 0
	if rr.Intn(3) == 0 {
		c.ctxN = rr.Intn(3)
	}
	na := rr.Intn(6)
	if rr.Intn(2) == 0 {
		na = n + rr.Range(-1, 1)
		if na < 0 {
			na = 0
		}
	}
	for i := 0; i < na; i++ {
		if i < len(c.params) && rr.Intn(3) > 0 {
			// most of the time an argument that fits the parameter
			p := c.params[i]
			var fits []akind
			for _, a := range c20Args {
				if _, ok := convertParam(a, p); ok && a.Name != "missing" {
					fits = append(fits, a)
				}
			}
			if len(fits) > 0 {
				c.args = append(c.args, fits[rr.Intn(len(fits))])
				continue
			}
		}
		c.args = append(c.args, c20Args[rr.Intn(len(c20Args))])
	}
	// a single argument that is not a function can also be supplied by the
	// application operator: v ~> $f calls $f(v), in the same context
	c.apply = len(c.args) == 1 && !strings.HasPrefix(c.args[0].Name, "function") && rr.Intn(2) == 0
	// the call is the first step of a path evaluated without any context item
	// (input nil): what is prepended as the context item is 'no value'
	c.noctx = !c.apply && rr.Intn(6) == 0
	return c
}

var c20Seq int

func c20Call(r *fw.Rec, rr *prng.R) {
	c := c20Gen(rr)
	c20Seq++
	name := fmt.Sprintf("ext%d", c20Seq%7)
	// build the Go function by reflection
	in := make([]reflect.Type, len(c.params))
	for i, p := range c.params {
		in[i] = p.T
	}
	if c.variadic {
		in[len(in)-1] = reflect.SliceOf(in[len(in)-1])
	}
	out := []reflect.Type{tString}
	if c.nOut == 2 {
		out = append(out, tErr)
	}
	var recorded []string
	called := 0
	boom := errors.New("boom from extension")
	fn := reflect.MakeFunc(reflect.FuncOf(in, out, c.variadic), func(args []reflect.Value) []reflect.Value {
		called++
		recorded = nil
		for i, a := range args {
			if c.variadic && i == len(args)-1 {
				for j := 0; j < a.Len(); j++ {
					recorded = append(recorded, describe(a.Index(j)))
				}
				continue
			}
			recorded = append(recorded, describe(a))
		}
		res := []reflect.Value{reflect.ValueOf("result")}
		if c.nOut == 2 {
			switch c.retErr {
			case 1:
				res = append(res, reflect.ValueOf(&boom).Elem())
			case 2:
				e := jtypes.ErrUndefined
				res = append(res, reflect.ValueOf(&e).Elem())
			default:
				res = append(res, reflect.Zero(tErr))
			}
		}
		return res
	})
	ext := jsonata.Extension{Func: fn.Interface()}
	if c.undefH {
		ext.UndefinedHandler = jtypes.ArgUndefined(0)
	}
	if c.ctxN >= 0 {
		ext.EvalContextHandler = jtypes.ArgCountEquals(c.ctxN)
	}
	texts := make([]string, len(c.args))
	kinds := make([]string, len(c.args))
	for i, a := range c.args {
		texts[i], kinds[i] = a.Text, a.Name
	}
	prog := "ctx.$" + name + "(" + strings.Join(texts, ", ") + ")"
	if c.apply {
		prog = "ctx.((" + texts[0] + ") ~> $" + name + ")"
	}
	if c.noctx {
		prog = "$" + name + "(" + strings.Join(texts, ", ") + ").$"
	}
	var pnames []string
	for _, p := range c.params {
		pnames = append(pnames, p.Name)
	}
	sigText := fmt.Sprintf("func(%s%s) %d results", strings.Join(pnames, ", "), map[bool]string{true: "...", false: ""}[c.variadic], c.nOut)
	desc := fmt.Sprintf("%s | undefinedHandler=%v ctxHandler=ArgCountEquals(%d) | args=%v", sigText, c.undefH, c.ctxN, kinds)
	r.Begin(prog, desc)
	r.Tag("call", fmt.Sprintf("params:%d", len(c.params)), fmt.Sprintf("args:%d", len(c.args)))
	if c.variadic {
		r.Tag("variadic")
	}
	r.Nontrivial(prog + desc)
	e, co := obs.Compile(prog)
	if e == nil {
		r.Violation("compile", co.String(), nil)
		return
	}
	if err := e.RegisterExts(map[string]jsonata.Extension{name: ext}); err != nil {
		r.Violation("valid-shape-rejected", fmt.Sprintf("registration of %s failed: %v", sigText, err), nil)
		return
	}
	var input interface{} = map[string]interface{}{"ctx": "ctxval"}
	if c.noctx {
		input = nil
	}
	o := obs.Eval(e, input)
	r.Outcome(o.Class())
	if o.Kind == "panic" {
		r.ViolationStack("panic:"+o.Panic.Site+":"+o.Panic.Class, "Eval panicked: "+o.Panic.Value, o.Panic.Stack, nil)
		return
	}
	// ---- oracle
	argv := append([]akind{}, c.args...)
	ctxInserted := false
	if c.ctxN >= 0 && len(argv) == c.ctxN {
		argv = append([]akind{{"string", `"ctxval"`}}, argv...)
		if c.noctx {
			argv[0] = akind{"missing", "nothing"}
		}
		ctxInserted = true
	}
	_ = ctxInserted
	want := ""
	var wantRec []string
	switch {
	case c.undefH && len(argv) > 0 && argv[0].Name == "missing":
		want = "undefined-by-handler"
	default:
		pc := len(c.params)
		n := len(argv)
		for i := n; i < pc; i++ {
			if !c.params[i].Opt {
				break
			}
			argv = append(argv, akind{"missing", "omitted"})
		}
		if (c.variadic && len(argv) < pc-1) || (!c.variadic && len(argv) != pc) {
			want = "argcount"
			break
		}
		for i, a := range argv {
			j := i
			if j >= pc {
				j = pc - 1
			}
			d, ok := convertParam(a, c.params[j])
			if a.Name == "string" && a.Text == `"ctxval"` && ok {
				d = strings.Replace(d, "string:str", "string:ctxval", 1)
				d = strings.Replace(d, "[]byte:str", "[]byte:ctxval", 1)
			}
			if !ok {
				want = fmt.Sprintf("argtype:%d", i+1)
				break
			}
			wantRec = append(wantRec, d)
		}
		if want == "" {
			switch c.retErr {
			case 1:
				want = "error-from-func"
			case 2:
				want = "undefined-from-func"
			default:
				want = "result"
			}
		}
	}
	fail := func(sig, msg string) {
		r.Violation(sig, fmt.Sprintf("%s: %s; outcome %s; recorded args %v; function called %d time(s)", desc, msg, o.String(), recorded, called), nil)
	}
	switch want {
	case "undefined-by-handler":
		if o.Kind != "undefined" || called != 0 {
			fail("undefined-handler", "the UndefinedHandler applies: expected 'no value' without calling the function")
			return
		}
	case "argcount":
		ae, ok := o.Err.(*jsonata.ArgCountError)
		if o.Kind != "error" || !ok || called != 0 {
			fail("argcount-expected", "the argument count does not fit: expected ArgCountError and no call")
			return
		}
		if ae.Func != name {
			fail("argcount-name", fmt.Sprintf("ArgCountError names function %q, want %q", ae.Func, name))
			return
		}
	case "result", "error-from-func", "undefined-from-func":
		if called != 1 {
			fail("not-called", "the arguments fit: expected exactly one call")
			return
		}
		for i := range wantRec {
			if i >= len(recorded) || (recorded[i] != wantRec[i] && !strings.Contains(wantRec[i], "?")) {
				fail("argument-conversion", fmt.Sprintf("argument %d: want %v, recorded %v", i+1, wantRec, recorded))
				return
			}
		}
		if len(recorded) != len(wantRec) {
			fail("argument-conversion", fmt.Sprintf("want %v, recorded %v", wantRec, recorded))
			return
		}
		switch want {
		case "result":
			if s, _ := o.Val.(string); o.Kind != "value" || s != "result" {
				fail("result-mapping", "expected the function's return value as the result")
				return
			}
		case "error-from-func":
			if o.Kind != "error" || o.Err != boom {
				fail("error-mapping", "expected the function's error as Eval's error")
				return
			}
		case "undefined-from-func":
			if o.Kind != "undefined" {
				fail("errundefined-mapping", "jtypes.ErrUndefined from the function must become 'no value'")
				return
			}
		}
	default: // argtype:N
		te, ok := o.Err.(*jsonata.ArgTypeError)
		if o.Kind != "error" || !ok || called != 0 {
			fail("argtype-expected", "argument "+want[8:]+" does not fit its parameter: expected ArgTypeError and no call")
			return
		}
		if fmt.Sprintf("argtype:%d", te.Which) != want || te.Func != name {
			fail("argtype-position", fmt.Sprintf("ArgTypeError names %q argument %d, want %q %s", te.Func, te.Which, name, want))
			return
		}
	}
	r.Held()
	r.Sample("call:"+want, map[string]any{"prog": prog, "extension": desc, "outcome": o.String(), "recorded_args": recorded})
}

type c20ErrStruct struct{ msg string }

func (e c20ErrStruct) Error() string { return e.msg }

type c20ErrPtr struct{ msg string }

func (e *c20ErrPtr) Error() string { return e.msg }

// ---- registration-time validation
func c20Registration(r *fw.Rec, rr *prng.R) {
	type rc struct {
		name string
		fn   interface{}
		ok   bool
		what string
		want string // expected outcome of $name(1): "" = only "no panic"
	}
	good := func(x float64) float64 { return x }
	cases := []rc{
		{"ok1", good, true, "valid", ""}, {"ok_2", func() (string, error) { return "", nil }, true, "valid two results", ""}, {"é1", good, true, "unicode letter name", ""}, {"_x", good, true, "underscore name", ""},
		{"errstruct", func(x float64) (float64, c20ErrStruct) { return x, c20ErrStruct{"boom"} }, true, "second result is a struct type implementing error (never nil)", "error:boom"},
		{"errptrnil", func(x float64) (float64, *c20ErrPtr) { return x + 1, nil }, true, "second result is a pointer type implementing error, nil returned", "value:2"},
		{"errptr", func(x float64) (float64, *c20ErrPtr) { return x, &c20ErrPtr{"bang"} }, true, "second result is a pointer type implementing error, non-nil returned", "error:bang"},
		{"typednil", (func(float64) float64)(nil), false, "typed nil func", ""},
		{"nilcallable", func(x float64) jtypes.Callable { return nil }, true, "result type jtypes.Callable, nil returned", ""},
		{"nilcallable2", func(x float64) (jtypes.Callable, error) { return nil, nil }, true, "result type jtypes.Callable, nil returned with a nil error", ""},
		{"niliface", func(x float64) interface{} { return nil }, true, "result type interface{}, nil returned", ""},
		{"nilslice", func(x float64) []interface{} { return nil }, true, "result type []interface{}, nil returned", ""},
		{"nilmap", func(x float64) map[string]interface{} { return nil }, true, "result type map, nil returned", ""},
		{"optvar", func(a jtypes.OptionalInt, b ...int) int { return 0 }, false, "optional directly before a variadic tail", ""},
		{"optvar2", func(s string, o jtypes.OptionalString, rest ...interface{}) int { return 0 }, false, "optional directly before a variadic tail", ""},
		{"optvar3", func(o jtypes.OptionalValue, rest ...jtypes.Callable) int { return 0 }, false, "optional directly before a variadic tail", ""},
		{"", good, false, "empty name", ""}, {"a b", good, false, "space in name", ""}, {"a-b", good, false, "dash in name", ""}, {"$x", good, false, "dollar in name", ""}, {"a.b", good, false, "dot in name", ""}, {"f(", good, false, "paren in name", ""},
		{"nf", 42, false, "not a function", ""}, {"nf2", "str", false, "not a function", ""}, {"r0", func(x float64) {}, false, "no results", ""}, {"r3", func() (int, int, error) { return 0, 0, nil }, false, "three results", ""},
		{"r2", func() (int, int) { return 0, 0 }, false, "second result not an error", ""}, {"optfirst", func(a jtypes.OptionalInt, b float64) int { return 0 }, false, "optional before mandatory", ""},
		{"varopt", func(a ...jtypes.OptionalInt) int { return 0 }, false, "variadic optional", ""}, {"nilfn", nil, false, "nil func", ""},
		{"optopt", func(a float64, b jtypes.OptionalInt, c jtypes.OptionalString) int { return 0 }, true, "trailing optionals", ""}, {"vari", func(a string, b ...float64) int { return 0 }, true, "variadic", ""},
	}
	c := cases[rr.Intn(len(cases))]
	level := rr.Pick("expr", "package")
	name := c.name
	if level == "package" && c.ok {
		name = fmt.Sprintf("%s_p%d_%d", c.name, r.Shard(), r.Case())
	}
	desc := fmt.Sprintf("Register(%s) name=%q func=%T (%s)", level, name, c.fn, c.what)
	r.Begin(desc, "")
	r.Tag("registration:" + level)
	r.Nontrivial(desc)
	var err error
	pi := fw.Guard(func() {
		if level == "package" {
			err = jsonata.RegisterExts(map[string]jsonata.Extension{name: {Func: c.fn}})
		} else {
			e := jsonata.MustCompile("1")
			err = e.RegisterExts(map[string]jsonata.Extension{name: {Func: c.fn}})
		}
	})
	// an accepted extension must be callable without panicking, and a non-nil
	// error result (of whatever type) must become Eval's error
	if c.ok && err == nil && pi == nil {
		var callErr error
		var out interface{}
		pi = fw.Guard(func() {
			use := "@"
			if c.want == "" {
				// whatever the function returns can be used in any position
				use = rr.Pick("@", "@()", "@ ~> $string", "$map([1], @)", "$type(@)", "[@]", `{"k": @}`, "@ = @", "@.a", "$count(@)", "@ ~> $count", "$filter([1], @)", "@[0]", "@ & \"\"", "$exists(@)", "$sort([2,1], @)", "$string(@)")
			}
			e := jsonata.MustCompile(strings.ReplaceAll(use, "@", "$"+name+"(1)"))
			if level == "expr" {
				if err := e.RegisterExts(map[string]jsonata.Extension{name: {Func: c.fn}}); err != nil {
					callErr = err
					return
				}
			}
			r.Evals(1)
			out, callErr = e.Eval(nil)
		})
		if pi == nil && c.want != "" {
			got := fmt.Sprintf("value:%v", out)
			if callErr != nil {
				got = "error:" + callErr.Error()
			}
			if got != c.want {
				r.Violation("error-result", fmt.Sprintf("%s: $%s(1) gave %s, want %s", desc, name, got, c.want), nil)
				return
			}
		}
	}
	r.Outcome(fmt.Sprintf("register-ok:%v", err == nil && pi == nil))
	switch {
	case pi != nil:
		r.ViolationStack("registration-or-call-panic", desc+": "+pi.Value, pi.Stack, nil)
	case c.ok && err != nil:
		r.Violation("valid-registration-rejected", desc+": "+err.Error(), nil)
	case !c.ok && err == nil:
		r.Violation("invalid-registration-accepted", desc+" was accepted", nil)
	default:
		r.Held()
		r.Sample("registration", map[string]any{"case": desc, "error": fmt.Sprint(err)})
	}
	// invalid variable names
	if rr.Intn(3) == 0 {
		bad := rr.Pick("", "a b", "x-y", "$v")
		e := jsonata.MustCompile("1")
		if err := e.RegisterVars(map[string]interface{}{bad: 1}); err == nil {
			r.Violation("invalid-var-name-accepted", fmt.Sprintf("RegisterVars accepted the name %q", bad), nil)
		}
	}
}

// ---- visibility histories (sequential model)
func c20History(r *fw.Rec, rr *prng.R) {
	uniq := fmt.Sprintf("h%d_%d_", r.Shard(), r.Case())
	names := []string{uniq + "a", uniq + "b", uniq + "c"}
	type live struct {
		e     *jsonata.Expr
		vars  map[string]float64 // model: what this Expr must see
		funcs map[string]float64
	}
	global := map[string]float64{}
	globalF := map[string]float64{}
	var exprs []*live
	var trace []string
	ver := 0.0
	mkFn := func(v float64) jsonata.Extension {
		return jsonata.Extension{Func: func(x float64) float64 { return v*1000 + x }}
	}
	steps := rr.Range(6, 16)
	for s := 0; s < steps; s++ {
		name := names[rr.Intn(len(names))]
		ver++
		switch k := rr.Intn(7); {
		case k == 0 || len(exprs) == 0:
			e, err := jsonata.Compile("[[$" + names[0] + "],[$" + names[1] + "],[$" + names[2] + "]]")
			if err != nil {
				r.Violation("compile", err.Error(), nil)
				return
			}
			l := &live{e: e, vars: map[string]float64{}, funcs: map[string]float64{}}
			for k, v := range global {
				l.vars[k] = v
			}
			for k, v := range globalF {
				l.funcs[k] = v
			}
			exprs = append(exprs, l)
			trace = append(trace, fmt.Sprintf("Compile#%d", len(exprs)-1))
		case k == 1:
			jsonata.RegisterVars(map[string]interface{}{name: ver})
			global[name] = ver
			delete(globalF, name)
			trace = append(trace, fmt.Sprintf("pkg.RegisterVars(%s=%v)", name, ver))
		case k == 2:
			jsonata.RegisterExts(map[string]jsonata.Extension{name: mkFn(ver)})
			globalF[name] = ver
			delete(global, name)
			trace = append(trace, fmt.Sprintf("pkg.RegisterExts(%s=f%v)", name, ver))
		case k == 3:
			l := exprs[rr.Intn(len(exprs))]
			l.e.RegisterVars(map[string]interface{}{name: ver})
			l.vars[name] = ver
			delete(l.funcs, name)
			trace = append(trace, fmt.Sprintf("expr.RegisterVars(%s=%v)", name, ver))
		case k == 4:
			l := exprs[rr.Intn(len(exprs))]
			l.e.RegisterExts(map[string]jsonata.Extension{name: mkFn(ver)})
			l.funcs[name] = ver
			delete(l.vars, name)
			trace = append(trace, fmt.Sprintf("expr.RegisterExts(%s=f%v)", name, ver))
		default:
			// probe every live expression
			for i, l := range exprs {
				r.Evals(1)
				o := obs.Eval(l.e, nil)
				arr, _ := obs.Normalize(o.Val, nil).([]interface{})
				if o.Kind != "value" || len(arr) != 3 {
					r.Violation("history-probe", fmt.Sprintf("probe failed: %s after %v", o.String(), trace), nil)
					return
				}
				for j, n := range names {
					cell, _ := arr[j].([]interface{})
					var got string
					switch {
					case len(cell) == 0:
						got = "absent"
					default:
						switch x := cell[0].(type) {
						case float64:
							got = fmt.Sprintf("var:%v", x)
						case obs.Fn:
							got = "func"
						default:
							got = fmt.Sprintf("other:%v", x)
						}
					}
					want := "absent"
					if v, ok := l.vars[n]; ok {
						want = fmt.Sprintf("var:%v", v)
					}
					if _, ok := l.funcs[n]; ok {
						want = "func"
					}
					if got != want {
						r.Violation("registry-visibility", fmt.Sprintf("Expr #%d sees $%s as %s, the sequential model says %s; history: %v", i, n, got, want, trace), nil)
						return
					}
					if fv, ok := l.funcs[n]; ok {
						// the function this Expr holds is its own one
						e2, err := jsonata.Compile("1")
						_ = e2
						_ = err
						pe, perr := jsonata.Compile("$" + n + "(1)")
						if perr == nil {
							// a freshly compiled probe only sees package-level registrations
							po := obs.Eval(pe, nil)
							if gv, ok := globalF[n]; ok {
								if f, _ := obs.Normalize(po.Val, nil).(float64); f != gv*1000+1 {
									r.Violation("registry-visibility", fmt.Sprintf("a fresh Expr calling $%s(1) got %s, want %v; history: %v", n, po.String(), gv*1000+1, trace), nil)
									return
								}
							}
						}
						_ = fv
					}
				}
			}
			trace = append(trace, "probe")
		}
	}
	desc := strings.Join(trace, "; ")
	r.Begin("history: "+desc, "")
	r.Tag("history")
	r.Nontrivial(desc)
	r.Outcome("history")
	r.Held()
	r.Sample("history", map[string]any{"history": trace})
}

func init() {
	fw.Register(&fw.Prop{
		ID: "C20", Title: "Extensions: faithful argument passing, typed failures, registry visibility",
		Rule: "cases: PRNG-generated (a) Go functions built with reflect.MakeFunc over parameter lists of length 0..4 drawn from float64, int, uint8, string, bool, []byte, interface{}, reflect.Value, []interface{}, map[string]interface{}, jtypes.Callable and the seven Optional* types, with variadic tails and one or two results (nil error / error / jtypes.ErrUndefined), registered on an Expr and called under a path with 0..5 arguments over 10 value kinds (number, fraction, Go int, string, boolean, array, object, function, missing, out-of-range for uint8), with every combination of UndefinedHandler (ArgUndefined(0)) and EvalContextHandler (ArgCountEquals(n)); the function records its arguments; " +
			"(b) 27 registration cases: valid and invalid names and function shapes (incl. typed nil funcs and concrete error result types), on an Expr and at package level, each accepted one then called; (c) sequential histories of 6..16 steps mixing Compile, package-level and Expr-level RegisterVars/RegisterExts on three names and probes of every live Expr, judged against a sequential model (global map; each Expr = snapshot at Compile + its own registrations). " +
			"Oracle: the statement's conversion table (parameter type x argument kind), the count/handler rules, and the sequential registry model. non-trivial = every case; distinct by (signature, handlers, arguments) / history",
		Assumptions: []string{"argument positions in ArgTypeError are counted after the context item was prepended", "float-to-int conversion is judged only for integral in-range values (Go leaves the rest implementation-defined)", "package-level names are unique per history because the package registry cannot be reset; the concurrent variant is C06 configuration E"},
		Plan: func(tier string, seed uint64) *fw.Plan {
			n := int64(40000)
			if tier == "thorough" {
				n = 500000 // the package registry only grows: every later Compile copies it
			}
			return &fw.Plan{N: n, Run: func(i int64, r *fw.Rec) {
				rr := prng.New(seed, 0xC20, uint64(i))
				switch i % 20 {
				case 0:
					c20History(r, rr)
				case 1:
					c20Registration(r, rr)
				default:
					c20Call(r, rr)
				}
			}}
		},
	})
}
