package props

import (
	"fmt"

	"verif/harness/jast"
)

// grid 5: a predicate next to the keep-array marker and an order-by, in every
// order, on sequences of one, two and three items: one item kept is the item
// itself unless the path carries the marker (wherever the marker is written).
func c02Grid5() int64 { return 3*7*5 + c02Grid6() }

// grid 6: a predicate applied to a parenthesised filtered step, (a[P])[Q]: Q is
// applied once to everything the parenthesised path yields, not to the items a
// selects under each context item (which is what a[P][Q] means).
func c02Grid6() int64 { return 3 * 5 * 5 * 4 }

func c02Case6(i int64) (jast.Node, interface{}, string) {
	qi := int(i % 5)
	i /= 5
	pi := int(i % 5)
	i /= 5
	form := int(i % 4)
	di := int(i / 4)
	doc := []interface{}{
		A{O{"a": A{1.0, 2.0, 3.0}}, O{"a": A{4.0, 5.0, 6.0}}},
		O{"a": A{A{1.0, 2.0}, A{3.0}}},
		O{"x": A{O{"a": A{1.0, 2.0, 3.0}}, O{"a": 7.0}, O{"a": A{8.0, 9.0}}}, "a": A{0.0, 5.0}},
	}[di]
	mk := func(k int) jast.Node {
		return []jast.Node{&jast.Num{V: 0}, &jast.Num{V: -1}, &jast.Num{V: 1},
			&jast.Bin{Op: ">", L: &jast.Var{Name: ""}, R: &jast.Num{V: 1}}, &jast.Bool{V: true}}[k]
	}
	inner := &jast.Block{Exprs: []jast.Node{&jast.Pred{X: &jast.Name{V: "a"}, Filters: []jast.Node{mk(pi)}}}}
	var tree jast.Node = &jast.Pred{X: inner, Filters: []jast.Node{mk(qi)}}
	switch form {
	case 1:
		tree = &jast.Path{Steps: []jast.Node{&jast.Name{V: "x"}, tree}} // x.(a[P])[Q]
	case 2:
		tree = &jast.Path{Steps: []jast.Node{&jast.Var{Name: ""}, tree}} // $.(a[P])[Q]
	case 3:
		tree = &jast.Array{Items: []jast.Node{tree, &jast.Pred{X: &jast.Pred{X: &jast.Name{V: "a"}, Filters: []jast.Node{mk(pi)}}, Filters: []jast.Node{mk(qi)}}}} // [(a[P])[Q], a[P][Q]]
	}
	return tree, doc, fmt.Sprintf("grid6:form%d", form)
}

func c02Case5(i int64) (jast.Node, interface{}, string) {
	if i >= 3*7*5 {
		return c02Case6(i - 3*7*5)
	}
	pi := int(i % 5)
	i /= 5
	form := int(i % 7)
	n := int(i/7) + 1
	items := A{}
	for k := 0; k < n; k++ {
		items = append(items, O{"k": float64((k*2 + 1) % 3), "v": float64(k)})
	}
	doc := O{"a": items}
	pred := []jast.Node{&jast.Num{V: 0}, &jast.Num{V: -1}, &jast.Num{V: 1},
		&jast.Bin{Op: ">=", L: &jast.Name{V: "v"}, R: &jast.Num{V: 0}}, &jast.Bin{Op: ">", L: &jast.Name{V: "v"}, R: &jast.Num{V: 0}}}[pi]
	name := func() jast.Node { return &jast.Name{V: "a"} }
	keep := func(x jast.Node) *jast.Path { return &jast.Path{Steps: []jast.Node{x}, Keep: true} }
	srt := func(x jast.Node) jast.Node {
		return &jast.Sort{X: x, Terms: []jast.SortTerm{{X: &jast.Name{V: "k"}}}}
	}
	prd := func(x jast.Node) jast.Node { return &jast.Pred{X: x, Filters: []jast.Node{pred}} }
	var tree jast.Node
	switch form {
	case 0:
		tree = prd(srt(keep(name()))) // a[]^(k)[P]
	case 1:
		tree = keep(prd(srt(name()))) // a^(k)[P][]
	case 2:
		tree = prd(keep(name())) // a[][P]
	case 3:
		tree = keep(prd(name())) // a[P][]
	case 4:
		tree = &jast.Path{Steps: []jast.Node{prd(srt(keep(name()))), &jast.Name{V: "v"}}} // a[]^(k)[P].v
	case 5:
		tree = srt(prd(keep(name()))) // a[][P]^(k)
	default:
		tree = prd(srt(name())) // a^(k)[P]   (no marker: control)
	}
	return tree, doc, fmt.Sprintf("grid5:form%d", form)
}
