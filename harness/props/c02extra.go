package props

import (
	"fmt"

	"verif/harness/jast"
)

// grid 5: a predicate next to the keep-array marker and an order-by, in every
// order, on sequences of one, two and three items: one item kept is the item
// itself unless the path carries the marker (wherever the marker is written).
func c02Grid5() int64 { return 3 * 7 * 5 }

func c02Case5(i int64) (jast.Node, interface{}, string) {
	pi := int(i % 5)
	i /= 5
	form := int(i % 7)
	n := int(i/7) + 1
	items := A{}
	for k := 0; k < n; k++ {
		items = append(items, O{"k": float64((k*2 + 1) % 3), "v": float64(k)})
	}
	doc := O{"a": items}
	pred := []jast.Node{&jast.Num{V: 0}, &jast.Num{V: -1}, &jast.Num{V: 1},
		&jast.Bin{Op: ">=", L: &jast.Name{V: "v"}, R: &jast.Num{V: 0}}, &jast.Bin{Op: ">", L: &jast.Name{V: "v"}, R: &jast.Num{V: 0}}}[pi]
	name := func() jast.Node { return &jast.Name{V: "a"} }
	keep := func(x jast.Node) *jast.Path { return &jast.Path{Steps: []jast.Node{x}, Keep: true} }
	srt := func(x jast.Node) jast.Node {
		return &jast.Sort{X: x, Terms: []jast.SortTerm{{X: &jast.Name{V: "k"}}}}
	}
	prd := func(x jast.Node) jast.Node { return &jast.Pred{X: x, Filters: []jast.Node{pred}} }
	var tree jast.Node
	switch form {
	case 0:
		tree = prd(srt(keep(name()))) // a[]^(k)[P]
	case 1:
		tree = keep(prd(srt(name()))) // a^(k)[P][]
	case 2:
		tree = prd(keep(name())) // a[][P]
	case 3:
		tree = keep(prd(name())) // a[P][]
	case 4:
		tree = &jast.Path{Steps: []jast.Node{prd(srt(keep(name()))), &jast.Name{V: "v"}}} // a[]^(k)[P].v
	case 5:
		tree = srt(prd(keep(name()))) // a[][P]^(k)
	default:
		tree = prd(srt(name())) // a^(k)[P]   (no marker: control)
	}
	return tree, doc, fmt.Sprintf("grid5:form%d", form)
}
