package props

import (
	"encoding/json"
	"fmt"
	"strings"

	"verif/harness/fw"
	"verif/harness/obs"
)

// programs in which a sub-expression denotes no value but the program as a
// whole denotes one: ErrUndefined is reported only for programs without a value
var c10HasValue = [][2]string{
	{`nothing ~> $count`, `0`}, {`nothing ~> $exists`, `false`}, {`nothing ~> function($x){"none"}`, `"none"`}, {`nothing ~> $append(?, 1)`, `1`},
	{`nothing ~> function($x){$exists($x)}`, `false`}, {`a.nothing ~> $count`, `0`}, {`a.nothing ~> $exists ~> $string`, `"false"`}, {`$v ~> $count`, `0`},
	{`[1,2][$ > 5] ~> $count`, `0`}, {`nothing ~> ($count ~> $string)`, `"0"`}, {`(nothing ~> $string) ~> $exists`, `false`}, {`nothing ~> $count()`, `0`},
	{`$count(nothing)`, `0`}, {`$exists(nothing)`, `false`}, {`$exists(a.nothing)`, `false`}, {`[nothing]`, `[]`}, {`{"a": nothing}`, `{}`}, {`[nothing, 1]`, `[1]`},
	{`nothing = 1`, `false`}, {`nothing and true`, `false`}, {`nothing or true`, `true`}, {`nothing & "a"`, `"a"`}, {`nothing ? 1 : 2`, `2`}, {`$append(nothing, 1)`, `1`},
	{`$count([nothing])`, `0`}, {`nothing in [1]`, `false`}, {`$sum([])`, `0`}, {`$count([])`, `0`}, {`$join([])`, `""`}, {`$merge([])`, `{}`}, {`$string([])`, `"[]"`},
	{`$boolean([])`, `false`}, {`$map([1], function($v){nothing}) ~> $count`, `0`}, {`function($x){$count($x)}(nothing)`, `0`}, {`function($x, $y){$y}(nothing, 3)`, `3`},
	{`$.(1)`, ``}, {`$.{"a":1}`, ``}, {`$.[1]`, ``}, {`$[true].(1)`, ``}, {`$.$count($)`, ``}, {`$`, ``}, {`$$`, ``}, {`$$.(1)`, ``}, {`$.a`, ``}, {`$[0]`, ``}, {`$^($).(1)`, ``}, {`*.(1)`, ``}, {`**.(1)`, ``},
	{`function($x)<x+>{$x[0]}(nothing)`, ``}, {`function($x)<n+>{$x[0]}(nothing)`, ``}, {`(nothing ~> function($x)<x+>{$x})[0]`, ``},
	// callbacks that yield no value for some or all members: nothing takes their place
	{`$each({"a":1}, function($v){nothing})`, ``}, {`$each({"a":1,"b":2}, function($v){$v.zz})`, ``}, {`$sift({"a":1}, function($v){false})`, ``},

	{`$length().x`, ``}, {`$string().$length()`, ``}, {`$type().$`, ``}, {`$spread()[]`, ``}, {`$uppercase().$`, ``}, {`$number().($ + 1)`, ``}, {`$keys().$`, ``},
	{`nothing{"k": $.(1)}.k`, ``}, {`$.($x := 1; $x)`, ``}, {`($.(1))`, ``}, {`$.(1) ~> $string()`, ``}, {`$.$string()`, ``},
	{`function($a)<n+>{$a}(1, nothing)`, `[1]`}, {`function($x)<x+>{$count($x)}(nothing)`, `0`}, {`$exists(function($x)<x+>{$x[0]}(nothing))`, `false`},
	// a null made by the program is a value, also as the context item
	{`[null].$`, `null`}, {`[1, null, 2].$`, `[1,null,2]`}, {`[null].$exists($)`, `true`}, {`[null, 1].{"v": $}`, `[{"v":null},{"v":1}]`}, {`{"a": null}.a.$`, `null`},
	{`[null, 1][$ = null]`, `null`}, {`[null].($)`, `null`}, {`$map([null], function($v){$v})`, `[null]`}, {`[null].$type($)`, `"null"`}, {`[[null]].$count($)`, `1`},
	{`$each({"a":1,"b":2}, function($v){$v > 1 ? $v})`, `2`}, {`$count($each({"a":1,"b":2,"c":3}, function($v){$v > 1 ? $v}))`, `2`}, {`$map([1,2,3], function($v){$v > 1 ? $v})`, `[2,3]`},
	{`$exists($each({"a":1}, function($v){nothing}))`, `false`}, {`$each({"a":1,"b":2}, function($v, $k){$k = "b" ? $v})`, `2`}, {`[$each({"a":1}, function($v){nothing})]`, `[]`},
	{`nothing{"k": $type().$}`, `{}`}, {`$exists(nothing{"k": $string().$length()}.k)`, `false`}, {`nothing{"k": $spread()[]}`, `{}`},
	// programs that denote an error, not the absence of a value: the error is
	// reported as such, also inside an expression that would hide a missing value
	{`$single([1,2,3], function($v){$v > 5})`, `!`}, {`$single([])`, `!`}, {`$single([1,2])`, `!`}, {`$exists($single([1], function($v){false}))`, `!`},
	{`[$single([], function($v){true}), 0]`, `!`}, {`$count($single([1,2], function($v){$v = 0}))`, `!`},
	{`$error("e")`, `!`}, {`$exists($error("e"))`, `!`}, {`[nothing, $error("e")]`, `!`}, {`$assert(false, "e")`, `!`}, {`"a" + 1`, `!`}, {`$exists(-"a")`, `!`},
	{`$sum(["a"])`, `!`}, {`$count($number("x"))`, `!`}, {`$exists($toMillis("x"))`, `!`}, {`nothing ~> $error`, `!`}, {`$exists([1..1e9])`, `!`},
	{`$map([1,2], function($v){nothing ~> $count})`, `[0,0]`}, {`(nothing; 1)`, `1`}, {`($x := nothing; $exists($x))`, `false`}, {`$reduce([1,2], function($a,$b){$a + $b}, nothing)`, `3`},
}

func c10HasValueProbe(r *fw.Rec, c [2]string) {
	doc := `{"a":{}}`
	if c[1] == "" {
		// no context item at all (input null): a path that starts with the
		// context variable has nothing to start from
		doc = "null"
		r.Begin(c[0], doc)
		r.Tag("no-value-probe:no-context")
		r.Nontrivial(c[0])
		o := obs.Run(c[0], nil)
		r.Outcome(o.Class())
		if o.Kind != "undefined" {
			r.Violation("no-value-not-reported-as-ErrUndefined", c[0]+" on the input null denotes no value but Eval returned "+o.String(), nil)
			return
		}
		r.Held()
		return
	}
	if c[1] == "!" {
		r.Begin(c[0], doc)
		r.Tag("error-probe")
		r.Nontrivial(c[0])
		o := obs.Run(c[0], decodeDoc(doc))
		r.Outcome(o.Class())
		if o.Kind != "error" {
			r.Violation("error-not-reported:"+o.Kind, c[0]+" denotes an error (not a value, not the absence of one) but Eval returned "+o.String(), nil)
			return
		}
		r.Held()
		return
	}
	r.Begin(c[0], doc)
	r.Tag("has-value-probe")
	r.Nontrivial(c[0])
	o := obs.Run(c[0], decodeDoc(doc))
	r.Outcome(o.Class())
	var want interface{}
	if err := json.Unmarshal([]byte(c[1]), &want); err != nil {
		r.Inconclusive("bad expectation: " + err.Error())
		return
	}
	if o.Kind != "value" {
		r.Violation("value-not-reported:"+o.Kind, c[0]+" denotes the value "+c[1]+" but Eval returned "+o.String(), nil)
		return
	}
	got, _ := json.Marshal(obs.Normalize(o.Val, nil))
	exp, _ := json.Marshal(want)
	if string(got) != string(exp) {
		r.Violation("value-not-reported:other-value", c[0]+" denotes the value "+c[1]+" but Eval returned "+o.String(), nil)
		return
	}
	r.Held()
}

// c10Definedness: whatever the program E is, "E denotes a value" has one
// answer: Eval(E) returns a value exactly when $exists((E)) is true, reports
// ErrUndefined exactly when it is false, and fails exactly when it fails.
func c10Definedness(r *fw.Rec, prog string, in interface{}, o obs.Outcome) bool {
	e2, _ := obs.Compile("$exists((" + prog + "\n))")
	if e2 == nil {
		r.Count("definedness_wrapper_does_not_compile", 1)
		return false
	}
	r.Evals(1)
	o2 := obs.Eval(e2, in)
	r.Count("definedness_compared", 1)
	if o2.Kind == "panic" {
		r.Count("eval_panics_(C09)", 1)
		return false
	}
	want := map[string]string{"value": "value true", "undefined": "value false", "error": "error"}[o.Kind]
	got := o2.Kind
	if o2.Kind == "value" {
		got = "value " + obs.Show(o2.Val)
	}
	if got != want {
		r.Violation("definedness:"+o.Kind+"-but-exists-is-"+strings.ReplaceAll(got, " ", "-"), fmt.Sprintf("Eval of the program gives %s, but $exists((program)) gives %s", o.String(), o2.String()), nil)
		return true
	}
	return false
}
