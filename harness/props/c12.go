package props

import (
	"fmt"

	"verif/harness/fw"
	"verif/harness/jast"
	"verif/harness/judge"
	"verif/harness/prng"
)

// C12: lexical scoping, closures, signatures, partial application, chaining.

var c12Types = []string{"n", "s", "b", "l", "a", "o", "f", "j", "x", "(ns)", "(nsb)", "a<n>", "a<s>", "a<(ns)>", "(sa)", "(ao)", "a<a<n>>"}

// argument kinds for signature fitting
var c12ArgKinds = []struct {
	Name string
	Node func() jast.Node
}{
	{"number", func() jast.Node { return &jast.Num{V: 7} }},
	{"string", func() jast.Node { return &jast.Str{V: "str"} }},
	{"boolean", func() jast.Node { return &jast.Bool{V: true} }},
	{"null", func() jast.Node { return &jast.Null{} }},
	{"num-array", func() jast.Node { return lit(A{1.0, 2.0}) }},
	{"mixed-array", func() jast.Node { return lit(A{1.0, "a"}) }},
	{"object", func() jast.Node { return lit(O{"k": 1.0}) }},
	{"function", func() jast.Node { return &jast.Var{Name: "sum"} }},
	{"missing", func() jast.Node { return &jast.Name{V: "nothing"} }},
	{"nested-num-array", func() jast.Node { return lit(A{A{1.0, 2.0}, A{3.0}}) }},
	{"nested-mixed-array", func() jast.Node { return lit(A{A{1.0, 2.0}, A{3.0, "x"}}) }},
}

func pow(b, e int) int64 {
	r := int64(1)
	for i := 0; i < e; i++ {
		r *= int64(b)
	}
	return r
}

// sigCase: lambda with a signature, called under a known context with an
// argument list; the body reports what each parameter was bound to.
func sigLambda(sig string, nparams int) *jast.Lambda {
	names := []string{"p", "q", "r"}[:nparams]
	body := &jast.Object{}
	for _, n := range names {
		body.Pairs = append(body.Pairs, [2]jast.Node{&jast.Str{V: n}, &jast.Var{Name: n}})
	}
	return &jast.Lambda{Params: names, Sig: sig, Body: body}
}

func sigProgram(sig string, nparams int, args []jast.Node) jast.Node {
	// ctx.(function(...)<sig>{...}(args)) : definition and call under context "ctxval"
	call := &jast.Call{Fn: sigLambda(sig, nparams), Args: args}
	return &jast.Path{Steps: []jast.Node{&jast.Name{V: "ctx"}, &jast.Block{Exprs: []jast.Node{call}}}}
}

var c12Doc = O{"ctx": "ctxval", "a": "hello world", "b": O{"c": "low zebra", "d": 12.0}, "n": 4.5,
	"arr": A{O{"s": "xay", "v": 1.0}, O{"s": "pbq", "v": 2.0}, O{"s": "zz", "v": 3.0}}, "nums": A{3.0, 1.0, 2.0}}

func decodeArgs(i int64, n int) []jast.Node {
	k := int64(len(c12ArgKinds))
	args := make([]jast.Node, n)
	for j := n - 1; j >= 0; j-- {
		args[j] = c12ArgKinds[i%k].Node()
		i /= k
	}
	return args
}

// exhaustive one-parameter signatures: 17 types x 4 options x arg lists of length 0..2
func c12Sig1(i int64) jast.Node {
	nk := len(c12ArgKinds)
	per := 1 + int64(nk) + pow(nk, 2)
	si := i / per
	ai := i % per
	t := c12Types[si/4]
	opt := []string{"", "-", "?", "+"}[si%4]
	n := 0
	switch {
	case ai < 1:
	case ai < 1+int64(nk):
		n, ai = 1, ai-1
	default:
		n, ai = 2, ai-1-int64(nk)
	}
	return sigProgram(t+opt, 1, decodeArgs(ai, n))
}

func c12Sig1N() int64 {
	nk := len(c12ArgKinds)
	return int64(len(c12Types)*4) * (1 + int64(nk) + pow(nk, 2))
}

// two-parameter signatures: first type x {"", "-"}, second type x {"", "?", "+"}
func c12Sig2(i int64, maxLen int) jast.Node {
	nk := len(c12ArgKinds)
	var per int64
	for l := 0; l <= maxLen; l++ {
		per += pow(nk, l)
	}
	si := i / per
	ai := i % per
	nt := int64(len(c12Types))
	s2 := si % (nt * 3)
	s1 := si / (nt * 3)
	sig := c12Types[s1/2] + []string{"", "-"}[s1%2] + c12Types[s2/3] + []string{"", "?", "+"}[s2%3]
	n := 0
	for l := 0; l <= maxLen; l++ {
		if ai < pow(nk, l) {
			n = l
			break
		}
		ai -= pow(nk, l)
	}
	return sigProgram(sig, 2, decodeArgs(ai, n))
}

// two-parameter signatures with an option in a non-canonical place: first
// parameter n/s/a with ? or +, second n/s with none, - or ?
func c12Sig3(i int64) jast.Node {
	nk := len(c12ArgKinds)
	per := 1 + int64(nk) + pow(nk, 2) + pow(nk, 3)
	si := i / per
	ai := i % per
	t2 := []string{"n", "s"}[si%2]
	si /= 2
	o2 := []string{"", "-", "?"}[si%3]
	si /= 3
	o1 := []string{"?", "+"}[si%2]
	si /= 2
	t1 := []string{"n", "s", "a"}[si%3]
	n := 0
	for l := 0; l <= 3; l++ {
		if ai < pow(nk, l) {
			n = l
			break
		}
		ai -= pow(nk, l)
	}
	return sigProgram(t1+o1+t2+o2, 2, decodeArgs(ai, n))
}

func c12Sig3N() int64 {
	nk := len(c12ArgKinds)
	return 3 * 2 * 3 * 2 * (1 + int64(nk) + pow(nk, 2) + pow(nk, 3))
}

func c12Sig2N(maxLen int) int64 {
	nk := len(c12ArgKinds)
	var per int64
	for l := 0; l <= maxLen; l++ {
		per += pow(nk, l)
	}
	nt := int64(len(c12Types))
	return nt * 2 * nt * 3 * per
}

// ---- partial application: placeholders in every position of 1..3-ary functions
func c12Partial(i int64) jast.Node {
	// arity 1..3, placeholder mask (non-empty), number of call arguments 0..arity+1
	type shape struct{ ar, mask, argc int }
	var shapes []shape
	for ar := 1; ar <= 3; ar++ {
		for mask := 1; mask < 1<<ar; mask++ {
			for argc := 0; argc <= ar+1; argc++ {
				shapes = append(shapes, shape{ar, mask, argc})
			}
		}
	}
	sh := shapes[i%int64(len(shapes))]
	variant := int((i / int64(len(shapes))) % 4)
	var fn jast.Node
	names := []string{"p", "q", "r"}[:sh.ar]
	switch variant {
	case 0, 1: // lambda reporting its parameters
		body := &jast.Object{}
		for _, n := range names {
			body.Pairs = append(body.Pairs, [2]jast.Node{&jast.Str{V: n}, &jast.Var{Name: n}})
		}
		fn = &jast.Lambda{Params: names, Body: body}
	case 2: // built-in of that arity
		fn = &jast.Var{Name: []string{"uppercase", "substringBefore", "substring"}[sh.ar-1]}
	default: // variable bound to a lambda (so the partial goes through a binding)
		fn = &jast.Var{Name: "g"}
	}
	fixed := [][]jast.Node{
		{&jast.Str{V: "alpha-beta"}, &jast.Str{V: "-"}, &jast.Num{V: 3}},
		{&jast.Str{V: "hello"}, &jast.Num{V: 1}, &jast.Num{V: 2}},
	}[variant%2]
	args := make([]jast.Node, sh.ar)
	for k := 0; k < sh.ar; k++ {
		if sh.mask&(1<<k) != 0 {
			args[k] = &jast.Placeholder{}
		} else {
			args[k] = fixed[k]
		}
	}
	partial := &jast.Call{Fn: fn, Args: args}
	supplied := []jast.Node{&jast.Str{V: "one-two"}, &jast.Num{V: 2}, &jast.Num{V: 4}, &jast.Str{V: "extra"}}
	call := &jast.Call{Fn: partial, Args: supplied[:sh.argc]}
	if variant == 3 {
		body := &jast.Array{}
		for _, n := range names {
			body.Items = append(body.Items, &jast.Array{Items: []jast.Node{&jast.Var{Name: n}}})
		}
		return &jast.Block{Exprs: []jast.Node{&jast.Assign{Name: "g", Val: &jast.Lambda{Params: names, Body: body}}, call}}
	}
	return call
}

func c12PartialN() int64 {
	n := 0
	for ar := 1; ar <= 3; ar++ {
		n += ((1 << ar) - 1) * (ar + 2)
	}
	return int64(n * 4)
}

// ---- context-defaulting built-ins nested in each other's arguments
var c12CtxPaths = []jast.Node{
	&jast.Name{V: "a"},
	&jast.Path{Steps: []jast.Node{&jast.Name{V: "b"}, &jast.Name{V: "c"}}},
	&jast.Path{Steps: []jast.Node{&jast.Var{Name: "$"}, &jast.Name{V: "b"}, &jast.Name{V: "c"}}},
	&jast.Path{Steps: []jast.Node{&jast.Name{V: "arr"}, &jast.Name{V: "s"}}},
	&jast.Path{Steps: []jast.Node{&jast.Var{Name: "$"}, &jast.Name{V: "arr"}, &jast.Pred{X: &jast.Name{V: "s"}, Filters: []jast.Node{&jast.Num{V: 1}}}}},
	&jast.Path{Steps: []jast.Node{&jast.Name{V: "b"}, &jast.Name{V: "d"}}},
	&jast.Name{V: "n"},
}

// one-explicit-argument forms that default their first argument to the context
var c12Ctx1 = []string{"substringBefore", "substringAfter", "contains", "substring", "pad", "split", "power", "lookup"}

// zero-argument forms
var c12Ctx0 = []string{"string", "length", "uppercase", "lowercase", "trim", "boolean", "type", "number", "abs", "floor", "keys"}

func underPath(p jast.Node, call jast.Node) jast.Node {
	steps := []jast.Node{}
	if pp, ok := p.(*jast.Path); ok {
		steps = append(steps, pp.Steps...)
	} else {
		steps = append(steps, p)
	}
	return &jast.Path{Steps: append(steps, call)}
}

func (g *c12Gen) ctxCall(d int) jast.Node {
	r := g.r
	p := c12CtxPaths[r.Intn(len(c12CtxPaths))]
	if d >= 3 || r.Intn(3) == 0 {
		if r.Intn(3) == 0 {
			return p
		}
		return underPath(p, &jast.Call{Fn: &jast.Var{Name: c12Ctx0[r.Intn(len(c12Ctx0))]}})
	}
	fn := c12Ctx1[r.Intn(len(c12Ctx1))]
	var arg jast.Node
	switch r.Intn(4) {
	case 0:
		switch fn {
		case "substring", "pad", "power":
			arg = &jast.Num{V: float64(r.Range(-3, 12))}
		default:
			arg = &jast.Str{V: r.Pick("z", "o", " ", "l", "x")}
		}
	default:
		arg = g.ctxCall(d + 1)
	}
	g.tags["ctx:"+fn] = true
	if r.Intn(4) == 0 {
		// the same call written with the application operator: the function
		// gets one argument and takes the other from the context
		g.tags["ctx:applied"] = true
		return underPath(p, &jast.Block{Exprs: []jast.Node{&jast.Apply{L: arg, R: &jast.Var{Name: fn}}}})
	}
	return underPath(p, &jast.Call{Fn: &jast.Var{Name: fn}, Args: []jast.Node{arg}})
}

// ---- scoping, closures, chains (random)
type c12Gen struct {
	r     *prng.R
	nfn   int
	fns   []string // function variables in scope (unique names)
	arity map[string]int
	tags  map[string]bool
}

var c12Vars = []string{"x", "y", "z"}

func (g *c12Gen) num(d int) jast.Node {
	r := g.r
	switch r.Intn(10) {
	case 0, 1:
		return &jast.Num{V: float64(r.Range(0, 9))}
	case 2, 3, 4:
		return &jast.Var{Name: c12Vars[r.Intn(len(c12Vars))]}
	case 5:
		if d < 3 {
			return &jast.Bin{Op: r.Pick("+", "-", "*"), L: g.num(d + 1), R: g.num(d + 1)}
		}
	case 6:
		if d < 3 {
			return g.block(d + 1)
		}
	case 7:
		if d < 3 && len(g.fns) > 0 {
			return g.callFn(d + 1)
		}
	case 8:
		if d < 3 {
			g.tags["cond"] = true
			return &jast.Cond{If: &jast.Bin{Op: r.Pick("<", ">", "="), L: g.num(d + 1), R: g.num(d + 1)}, Then: g.num(d + 1), Else: g.num(d + 1)}
		}
	case 9:
		return &jast.Path{Steps: []jast.Node{&jast.Name{V: "b"}, &jast.Name{V: "d"}}}
	}
	return &jast.Num{V: float64(r.Range(0, 9))}
}

func (g *c12Gen) callFn(d int) jast.Node {
	r := g.r
	f := g.fns[r.Intn(len(g.fns))]
	ar := g.arity[f]
	n := ar
	switch r.Intn(5) {
	case 0:
		n = ar - 1 // missing argument -> no value
	case 1:
		n = ar + 1 // surplus argument ignored
	}
	if n < 0 {
		n = 0
	}
	args := make([]jast.Node, n)
	for i := range args {
		args[i] = g.num(d + 1)
	}
	if n > ar && n > 0 {
		// the callee ignores the value of a surplus argument, but evaluating it
		// is part of the calling block: a binding it makes stays, an error counts
		switch r.Intn(6) {
		case 0, 1, 2:
			g.tags["call:surplus-argument-binds-a-variable"] = true
			args[n-1] = &jast.Assign{Name: c12Vars[r.Intn(len(c12Vars))], Val: g.num(d + 1)}
		case 3:
			g.tags["call:surplus-argument-fails"] = true
			args[n-1] = &jast.Call{Fn: &jast.Num{V: 1}, Args: []jast.Node{&jast.Num{V: 2}}}
		}
	}
	g.tags["call"] = true
	return &jast.Call{Fn: &jast.Var{Name: f}, Args: args}
}

func (g *c12Gen) lambda(d int) (*jast.Lambda, int) {
	r := g.r
	ar := r.Intn(4)
	params := []string{}
	// parameters reuse the variable pool so that they shadow outer bindings
	pool := []string{"x", "y", "z"}
	r2 := r.Intn(3)
	for i := 0; i < ar && i < 3; i++ {
		params = append(params, pool[(i+r2)%3])
	}
	var body jast.Node
	switch r.Intn(6) {
	case 0:
		body = g.block(d + 1)
	case 4, 5:
		// the body is a bare assignment (no block of its own): the binding must
		// live in the call's frame, not in the frame the function was defined in
		g.tags["lambda-body-bare-assignment"] = true
		body = &jast.Assign{Name: c12Vars[r.Intn(len(c12Vars))], Val: g.num(d + 1)}
	case 1:
		// returns a closure
		g.tags["returns-closure"] = true
		body = &jast.Lambda{Params: []string{"w"}, Body: &jast.Bin{Op: "+", L: &jast.Var{Name: "w"}, R: g.num(d + 2)}}
		return &jast.Lambda{Params: params, Body: body}, -ar - 1 // negative: result is a function
	default:
		body = g.num(d + 1)
	}
	g.tags[fmt.Sprintf("lambda/%d", len(params))] = true
	return &jast.Lambda{Params: params, Body: body}, len(params)
}

func (g *c12Gen) block(d int) jast.Node {
	r := g.r
	b := &jast.Block{}
	n := r.Range(1, 4)
	savedF := g.fns
	for i := 0; i < n; i++ {
		switch r.Intn(7) {
		case 6:
			// an inner block whose only assignment is nested in a conditional, an
			// array or an argument: still the inner block's binding, gone afterwards
			g.tags["assign-nested-in-an-inner-block"] = true
			as := &jast.Assign{Name: c12Vars[r.Intn(len(c12Vars))], Val: g.num(d + 1)}
			var inner jast.Node
			switch r.Intn(3) {
			case 0:
				inner = &jast.Cond{If: &jast.Bool{V: true}, Then: as, Else: &jast.Num{V: 0}}
			case 1:
				inner = &jast.Array{Items: []jast.Node{as}}
			default:
				inner = call("count", as)
			}
			b.Exprs = append(b.Exprs, &jast.Block{Exprs: []jast.Node{inner}})
		case 0, 1, 2:
			g.tags["assign"] = true
			b.Exprs = append(b.Exprs, &jast.Assign{Name: c12Vars[r.Intn(len(c12Vars))], Val: g.num(d + 1)})
		case 3:
			if d < 3 {
				l, ar := g.lambda(d)
				if ar >= 0 {
					g.nfn++
					nm := fmt.Sprintf("f%d", g.nfn)
					var val jast.Node = l
					if r.Intn(3) == 0 {
						// parenthesised definition: the closure's defining frame is a
						// child of this block's frame and must stay linked to it, so
						// that bindings made here later are visible when it is called
						g.tags["lambda-defined-in-nested-block"] = true
						val = &jast.Block{Exprs: []jast.Node{l}}
					}
					b.Exprs = append(b.Exprs, &jast.Assign{Name: nm, Val: val})
					g.fns = append(append([]string{}, g.fns...), nm)
					g.arity[nm] = ar
				} else {
					// $mk := function(..){ function($w){...} }; use it right away: $mk(args)(k)
					nargs := -ar - 1
					args := make([]jast.Node, nargs)
					for k := range args {
						args[k] = g.num(d + 1)
					}
					b.Exprs = append(b.Exprs, &jast.Assign{Name: c12Vars[r.Intn(3)], Val: &jast.Call{Fn: &jast.Call{Fn: &jast.Block{Exprs: []jast.Node{l}}, Args: args}, Args: []jast.Node{g.num(d + 1)}}})
				}
			}
		case 4:
			b.Exprs = append(b.Exprs, g.num(d+1))
		case 5:
			if d < 3 {
				b.Exprs = append(b.Exprs, g.hof(d+1))
			}
		}
	}
	// the block's value reports the bindings it can see
	res := &jast.Array{}
	for _, v := range c12Vars {
		res.Items = append(res.Items, &jast.Array{Items: []jast.Node{&jast.Var{Name: v}}})
	}
	if r.Intn(2) == 0 {
		b.Exprs = append(b.Exprs, g.num(d+1))
	} else {
		b.Exprs = append(b.Exprs, res)
	}
	g.fns = savedF
	g.tags["block"] = true
	return b
}

func (g *c12Gen) hof(d int) jast.Node {
	r := g.r
	arr := &jast.Path{Steps: []jast.Node{&jast.Name{V: "nums"}}}
	switch r.Intn(6) {
	case 0:
		g.tags["hof:map"] = true
		return &jast.Call{Fn: &jast.Var{Name: "map"}, Args: []jast.Node{arr, &jast.Lambda{Params: []string{"v", "i"}[:r.Range(1, 2)], Body: &jast.Bin{Op: "+", L: &jast.Var{Name: "v"}, R: g.num(d + 1)}}}}
	case 1:
		g.tags["hof:filter"] = true
		return &jast.Call{Fn: &jast.Var{Name: "filter"}, Args: []jast.Node{arr, &jast.Lambda{Params: []string{"v"}, Body: &jast.Bin{Op: ">", L: &jast.Var{Name: "v"}, R: g.num(d + 1)}}}}
	case 2:
		g.tags["hof:reduce"] = true
		return &jast.Call{Fn: &jast.Var{Name: "reduce"}, Args: []jast.Node{arr, &jast.Lambda{Params: []string{"acc", "v"}, Body: &jast.Bin{Op: "-", L: &jast.Bin{Op: "*", L: &jast.Var{Name: "acc"}, R: &jast.Num{V: 2}}, R: &jast.Var{Name: "v"}}}}}
	case 4:
		// callbacks that declare fewer or more parameters than the built-in
		// offers: surplus arguments are ignored, missing ones are 'no value'
		n := r.Intn(5)
		params := []string{"p", "q", "s", "t"}[:n]
		var body jast.Node = &jast.Array{Items: []jast.Node{&jast.Str{V: "c"}}}
		for _, p := range params {
			body.(*jast.Array).Items = append(body.(*jast.Array).Items, call("type", &jast.Var{Name: p}))
		}
		fn := r.Pick("map", "filter", "single", "each", "sift", "each", "sift")
		g.tags[fmt.Sprintf("hof:%s:callback-with-%d-parameters", fn, n)] = true
		var subject jast.Node = arr
		switch fn {
		case "each", "sift":
			subject = lit(O{"k": 1.0})
			if r.Bool() {
				subject = lit(O{"k": 1.0, "j": "x"})
			}
		case "single":
			subject = lit(A{7.0})
		}
		res := call(fn, subject, &jast.Lambda{Params: params, Body: body})
		if fn == "each" {
			// (the order of the members of an object is not specified)
			res = call("count", res)
		}
		return res
	case 3:
		g.tags["hof:sort"] = true
		return &jast.Call{Fn: &jast.Var{Name: "sort"}, Args: []jast.Node{arr, &jast.Lambda{Params: []string{"l", "r"}, Body: &jast.Bin{Op: r.Pick(">", "<"), L: &jast.Var{Name: "l"}, R: &jast.Var{Name: "r"}}}}}
	}
	// bounded recursion through the binding
	g.tags["recursion"] = true
	g.nfn++
	nm := fmt.Sprintf("rec%d", g.nfn)
	var recl jast.Node = &jast.Lambda{Params: []string{"n"}, Body: &jast.Cond{
		If:   &jast.Bin{Op: "<=", L: &jast.Var{Name: "n"}, R: &jast.Num{V: 1}},
		Then: g.num(d + 2),
		Else: &jast.Bin{Op: r.Pick("*", "+"), L: &jast.Var{Name: "n"}, R: &jast.Call{Fn: &jast.Var{Name: nm}, Args: []jast.Node{&jast.Bin{Op: "-", L: &jast.Var{Name: "n"}, R: &jast.Num{V: 1}}}}},
	}}
	if r.Intn(3) == 0 {
		g.tags["recursion-through-nested-block"] = true
		recl = &jast.Block{Exprs: []jast.Node{recl}}
	}
	return &jast.Block{Exprs: []jast.Node{
		&jast.Assign{Name: nm, Val: recl},
		&jast.Call{Fn: &jast.Var{Name: nm}, Args: []jast.Node{&jast.Num{V: float64(r.Range(0, 8))}}},
	}}
}

// chain generates v ~> f(a) ~> g ~> ... of length 1..4
func (g *c12Gen) chain() jast.Node {
	r := g.r
	unary := func() jast.Node {
		switch r.Intn(9) {
		case 7:
			// a stage that yields no value: the following stages still run (on 'no value')
			g.tags["chain:stage-without-value"] = true
			if r.Bool() {
				return &jast.Lambda{Params: []string{"x"}, Body: &jast.Path{Steps: []jast.Node{&jast.Var{Name: "x"}, &jast.Name{V: "missing"}}}}
			}
			return &jast.Call{Fn: &jast.Var{Name: "lookup"}, Args: []jast.Node{&jast.Placeholder{}, &jast.Str{V: "zz"}}}
		case 8:
			// stages that turn 'no value' into a value
			switch r.Intn(3) {
			case 0:
				return &jast.Var{Name: "exists"}
			case 1:
				return &jast.Var{Name: "count"}
			}
			return &jast.Lambda{Params: []string{"x"}, Body: &jast.Cond{If: &jast.Call{Fn: &jast.Var{Name: "exists"}, Args: []jast.Node{&jast.Var{Name: "x"}}}, Then: &jast.Var{Name: "x"}, Else: &jast.Str{V: "dflt"}}}
		case 0:
			return &jast.Lambda{Params: []string{"x"}, Body: &jast.Bin{Op: "*", L: &jast.Var{Name: "x"}, R: &jast.Num{V: float64(r.Range(2, 3))}}}
		case 1:
			return &jast.Lambda{Params: []string{"x"}, Body: &jast.Bin{Op: "+", L: &jast.Var{Name: "x"}, R: &jast.Num{V: 1}}}
		case 2:
			return &jast.Var{Name: r.Pick("string", "count", "sum", "boolean", "type")}
		case 3:
			g.tags["chain:partial"] = true
			return &jast.Call{Fn: &jast.Var{Name: "power"}, Args: []jast.Node{&jast.Placeholder{}, &jast.Num{V: 2}}}
		case 4:
			g.tags["chain:transform"] = true
			return &jast.Transform{Pattern: &jast.Var{Name: ""}, Update: lit(O{"t": 1.0})}
		case 5:
			g.tags["chain:non-function"] = true
			return &jast.Num{V: 3}
		}
		return &jast.Var{Name: "f"}
	}
	if r.Intn(6) == 0 {
		// f(?, x) is a function of its placeholders: x is fixed where the partial
		// application is written, whatever is bound or raised afterwards
		g.tags["partial:given-argument-rebound-later"] = true
		num := func() jast.Node { return &jast.Num{V: float64(r.Range(1, 6))} }
		fn := r.Pick("power", "append", "substring")
		var given jast.Node = &jast.Var{Name: "x"}
		if r.Intn(3) == 0 {
			given = &jast.Bin{Op: "+", L: &jast.Var{Name: "x"}, R: num()}
		}
		partial := &jast.Call{Fn: &jast.Var{Name: fn}, Args: []jast.Node{&jast.Placeholder{}, given}}
		var arg jast.Node = num()
		if fn == "substring" {
			arg = &jast.Str{V: "abcdefgh"}
		}
		b := &jast.Block{Exprs: []jast.Node{
			&jast.Assign{Name: "x", Val: num()},
			&jast.Assign{Name: "p", Val: partial},
			&jast.Assign{Name: "x", Val: num()},
		}}
		switch r.Intn(3) {
		case 0:
			b.Exprs = append(b.Exprs, &jast.Array{Items: []jast.Node{&jast.Call{Fn: &jast.Var{Name: "p"}, Args: []jast.Node{arg}}, &jast.Var{Name: "x"}}})
		case 1:
			// inside a lambda that shadows $x
			b.Exprs = append(b.Exprs, &jast.Call{Fn: &jast.Lambda{Params: []string{"x"}, Body: &jast.Call{Fn: &jast.Var{Name: "p"}, Args: []jast.Node{arg}}}, Args: []jast.Node{num()}})
		default:
			b.Exprs = append(b.Exprs, call("map", lit(A{1.0, 2.0}), &jast.Var{Name: "p"}))
		}
		g.tags["chain"] = true
		return b
	}
	if r.Intn(5) == 0 {
		// one composed base function extended several times: every extension is
		// a function of its own (f ~> g must not disturb f or other extensions of f)
		g.tags["chain:shared-base-extended-twice"] = true
		pure := func() jast.Node {
			switch r.Intn(4) {
			case 0:
				return &jast.Lambda{Params: []string{"x"}, Body: &jast.Bin{Op: "*", L: &jast.Var{Name: "x"}, R: &jast.Num{V: float64(r.Range(2, 3))}}}
			case 1:
				return &jast.Lambda{Params: []string{"x"}, Body: &jast.Bin{Op: "+", L: &jast.Var{Name: "x"}, R: &jast.Num{V: float64(r.Range(1, 4))}}}
			case 2:
				return &jast.Lambda{Params: []string{"x"}, Body: &jast.Bin{Op: "-", L: &jast.Num{V: 0}, R: &jast.Var{Name: "x"}}}
			}
			return &jast.Var{Name: "abs"}
		}
		var base jast.Node = pure()
		for k, n := 0, r.Range(1, 8); k < n; k++ {
			base = &jast.Apply{L: base, R: pure()}
		}
		b := &jast.Block{Exprs: []jast.Node{&jast.Assign{Name: "base", Val: base}}}
		res := &jast.Array{}
		for k, n := 0, r.Range(2, 3); k < n; k++ {
			nm := fmt.Sprintf("ext%d", k)
			b.Exprs = append(b.Exprs, &jast.Assign{Name: nm, Val: &jast.Apply{L: &jast.Var{Name: "base"}, R: pure()}})
			res.Items = append(res.Items, &jast.Call{Fn: &jast.Var{Name: nm}, Args: []jast.Node{&jast.Num{V: float64(r.Range(1, 5))}}})
		}
		res.Items = append(res.Items, &jast.Call{Fn: &jast.Var{Name: "base"}, Args: []jast.Node{&jast.Num{V: 2}}})
		b.Exprs = append(b.Exprs, res)
		g.tags["chain"] = true
		return b
	}
	var e jast.Node
	switch r.Intn(5) {
	case 0:
		e = &jast.Num{V: float64(r.Range(1, 5))}
	case 1:
		e = lit(A{1.0, 2.0, 3.0})
	case 2:
		e = lit(O{"k": 1.0})
	case 3:
		e = unary() // function on the left: composition
		g.tags["chain:compose"] = true
	default:
		e = &jast.Name{V: "n"}
	}
	n := r.Range(1, 4)
	for i := 0; i < n; i++ {
		var rhs jast.Node
		switch r.Intn(3) {
		case 0:
			g.tags["chain:call"] = true
			rhs = &jast.Call{Fn: &jast.Var{Name: r.Pick("power", "append", "f2")}, Args: []jast.Node{&jast.Num{V: float64(r.Range(1, 3))}}}
		default:
			rhs = unary()
		}
		e = &jast.Apply{L: e, R: rhs}
	}
	if g.tags["chain:compose"] {
		// a composition is a function: call it (with and without an argument),
		// otherwise only the fact that it is a function would be observed
		arg := []jast.Node{[]jast.Node{&jast.Num{V: 3}, lit(O{"k": 1.0}), lit(A{1.0, 2.0}), &jast.Name{V: "nothing"}}[r.Intn(4)]}
		if r.Intn(5) == 0 {
			arg = nil
		}
		e = &jast.Call{Fn: &jast.Block{Exprs: []jast.Node{e}}, Args: arg}
	}
	g.tags["chain"] = true
	return &jast.Block{Exprs: []jast.Node{
		&jast.Assign{Name: "f", Val: &jast.Lambda{Params: []string{"x"}, Body: &jast.Array{Items: []jast.Node{&jast.Var{Name: "x"}, &jast.Str{V: "f"}}}}},
		&jast.Assign{Name: "f2", Val: &jast.Lambda{Params: []string{"x", "y"}, Body: lit(nil)}},
		&jast.Assign{Name: "f2", Val: &jast.Lambda{Params: []string{"x", "y"}, Body: &jast.Object{Pairs: [][2]jast.Node{{&jast.Str{V: "x"}, &jast.Var{Name: "x"}}, {&jast.Str{V: "y"}, &jast.Var{Name: "y"}}}}}},
		e,
	}}
}

func init() {
	fw.Register(&fw.Prop{
		ID: "C12", Title: "Lexical scoping, closures, signatures, partial application and chaining",
		Rule: "cases: (a) exhaustive one-parameter signatures: 17 types (n s b l a o f j x (ns) (nsb) a<n> a<s> a<(ns)> (sa) (ao) a<a<n>>) x 4 options (none - ? +) x every argument list of length 0..2 over 11 value kinds (incl. arrays of arrays), lambda defined and called under a known context and reporting its bindings; " +
			"(b) two-parameter signatures (first: type x {none,-}; second: type x {none,?,+}) x argument lists of length 0..2 (quick) / 0..3 (thorough); (b2) two-parameter signatures with an option where the port does not honour it (first n/s/a with ? or +, second n/s with none, - or ?) x argument lists of length 0..3; for (a)-(b2) a second, declarative oracle decides whether the arguments fit the signature (some in-order assignment in which a plain parameter takes one argument, ? one or none, - one or the type-correct context item, + one or more): a call that fits must not fail with an argument error; (c) exhaustive partial applications: arity 1..3 x every non-empty placeholder mask x 0..arity+1 call arguments x 4 callee variants (lambda, built-in, bound variable); " +
			"(d) PRNG-generated nested blocks with assignment, shadowing by inner blocks and by parameters, lambdas of 0..3 parameters (nested, returned, passed to $map/$filter/$reduce/$sort, recursive through their binding with a bounded counter), calls with missing and surplus arguments; " +
			"(e) chains of length 1..4 over values, calls, bare functions, partials, transforms and non-functions; (f) context-defaulting built-ins nested in each other's arguments under different path contexts. Oracle: reference model (exact; errors by class incl. ArgTypeError position). non-trivial = every case; distinct by program text",
		Assumptions: []string{"function variables have unique names so generated programs terminate"},
		Plan: func(tier string, seed uint64) *fw.Plan {
			n1 := c12Sig1N()
			maxLen := 2
			if tier == "thorough" {
				maxLen = 3
			}
			n2 := c12Sig2N(maxLen)
			n3 := c12PartialN()
			n4 := c12Sig3N()
			nRand := int64(30000)
			if tier == "thorough" {
				nRand = 1200000
			}
			return &fw.Plan{N: n1 + n2 + n3 + n4 + nRand,
				Subspaces: []string{fmt.Sprintf("%d one-parameter signature x argument-list cases", n1), fmt.Sprintf("%d two-parameter signature x argument-list (length<=%d) cases", n2, maxLen), fmt.Sprintf("%d partial-application shapes", n3), fmt.Sprintf("%d two-parameter signatures with an option in a non-canonical position x argument lists of length<=3", n4)},
				Run: func(i int64, r *fw.Rec) {
					var tree jast.Node
					tag := ""
					switch {
					case i < n1:
						tree, tag = c12Sig1(i), "sig1"
					case i < n1+n2:
						tree, tag = c12Sig2(i-n1, maxLen), "sig2"
					case i < n1+n2+n3:
						tree, tag = c12Partial(i-n1-n2), "partial"
					case i < n1+n2+n3+n4:
						tree, tag = c12Sig3(i-n1-n2-n3), "sig-non-canonical"
					default:
						rr := prng.New(seed, 0xC12, uint64(i))
						g := &c12Gen{r: rr, arity: map[string]int{}, tags: map[string]bool{}}
						switch i % 3 {
						case 0:
							tree, tag = g.block(0), "scoping"
						case 1:
							tree, tag = g.chain(), "chain"
						default:
							tree, tag = g.ctxCall(0), "ctx-nesting"
						}
						for t := range g.tags {
							r.Tag(t)
						}
					}
					modelCheck(r, tree, c12Doc, tag, judge.Opts{}, nil)
				}}
		},
	})
}
