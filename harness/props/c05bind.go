package props

import (
	"fmt"
	"strings"

	jsonata "github.com/blues/jsonata-go"

	"verif/harness/fw"
	"verif/harness/gen"
	"verif/harness/jast"
	"verif/harness/obs"
	"verif/harness/prng"
)

// What a call site calls is decided by the bindings in force when the call is
// evaluated. These programs bind the name of a built-in function for some
// inputs only (or the caller overrides it on the Expr between evaluations), so
// one call site reaches the built-in in one evaluation and another function in
// the next: each outcome must be the one a fresh Expr gives.
var c05BindNames = []string{"count", "sum", "string", "uppercase", "max", "length", "exists", "type", "reverse", "keys"}

var c05BindTemplates = []string{
	`($B := flag ? function($a){"custom:" & $a[0]} : $B; $B(items))`,
	`($B := flag ? function($a){"custom"} : $B; [$B(items), $B(items)])`,
	`($B := flag ? $string : $B; items ~> $B())`,
	`function($B){$B(items)}(flag ? function($a){"custom"} : $B)`,
	`$map([0, 1, 2], function($i){($B := ($i = sel) ? function($a){"c" & $i} : $B; $B($$.items))})`,
	`(flag ? ($B := function($a){"custom"}; $B(items)) : $B(items))`,
	`($f := function($g){$g(items)}; $f(flag ? function($a){"custom"} : $B))`,
	`($B := flag ? $B(?) : function($a){"custom"}; $B(items))`,
	`items.($B := $$.flag ? function($a){"c" & $a} : $B; $B($))`,
	`{"r": ($B := flag ? function($a){"custom"} : $B; $B(items))}.r`,
}

func c05Rebind(i int64, seed uint64, r *fw.Rec) {
	rr := prng.New(seed, 0xC05E, uint64(i))
	name := c05BindNames[rr.Intn(len(c05BindNames))]
	prog := strings.ReplaceAll(c05BindTemplates[rr.Intn(len(c05BindTemplates))], "$B", "$"+name)
	mkDoc := func(flag bool, sel int) string {
		return gen.JSON(O{"flag": flag, "sel": float64(sel), "items": A{"b", "a", "c"}})
	}
	r.Begin(prog, mkDoc(false, 0))
	r.Tag("input-dependent-binding")
	e, co := obs.Compile(prog)
	if e == nil {
		r.Violation("harness:binding-program-does-not-compile", prog+": "+co.String(), nil)
		return
	}
	fresh := func(doc string, ext bool) string {
		fe, _ := obs.Compile(prog)
		if ext {
			fe.RegisterExts(map[string]jsonata.Extension{name: {Func: func(v interface{}) string { return "ext" }}})
		}
		r.Evals(1)
		return digest(obs.Eval(fe, decodeDoc(doc)), false, false)
	}
	ext := false
	var hist []string
	n := rr.Range(4, 8)
	for k := 0; k < n; k++ {
		doc := mkDoc(rr.Bool(), rr.Intn(3))
		if k == 0 && rr.Intn(3) > 0 {
			doc = mkDoc(false, 0) // most histories start on the built-in
		}
		if !ext && k > 0 && rr.Intn(6) == 0 {
			// the caller overrides the built-in on this Expr
			ext = true
			e.RegisterExts(map[string]jsonata.Extension{name: {Func: func(v interface{}) string { return "ext" }}})
			hist = append(hist, "RegisterExts("+name+")")
		}
		want := fresh(doc, ext)
		r.Evals(1)
		got := digest(obs.Eval(e, decodeDoc(doc)), false, false)
		hist = append(hist, doc)
		if got != want {
			r.Violation("outcome-changed:binding-of-an-earlier-evaluation", fmt.Sprintf("%s on %s gave %q, a fresh Expr gives %q; history of this Expr: %s", prog, doc, clipS(got), clipS(want), strings.Join(hist, " | ")), nil)
			return
		}
	}
	r.Nontrivial(prog + fmt.Sprint(i))
	r.Outcome("compared")
	r.Held()
	r.Sample("input-dependent-binding", map[string]any{"prog": prog, "history": hist})
}

// The clock is one of the sanctioned variations only between evaluations:
// within one evaluation every $now()/$millis() is the same instant, in whatever
// scope it is read and however much work lies between two readings.
func c05Clock(i int64, seed uint64, r *fw.Rec) {
	rr := prng.New(seed, 0xC05F, uint64(i))
	work := rr.Range(20000, 60000)
	prog := fmt.Sprintf(`[($a := $millis(); $a), ($sum([1..%d]); $millis()), function(){$toMillis($now())}(), $map([1, 2], function($v){($sum([1..%d]); $millis())})[1], {"k": ($millis())}.k, [1].($sum([1..%d]); $toMillis($now()))]`, work, work/2, work/2)
	r.Begin(prog, "")
	r.Tag("clock-constant-within-an-evaluation")
	r.Nontrivial(prog)
	e, co := obs.Compile(prog)
	if e == nil {
		r.Violation("harness:clock-program-does-not-compile", co.String(), nil)
		return
	}
	for k := 0; k < 3; k++ {
		r.Evals(1)
		o := obs.Eval(e, nil)
		arr, _ := obs.Normalize(o.Val, nil).([]interface{})
		if o.Kind != "value" || len(arr) != 6 {
			r.Violation("clock-program-failed", "got "+o.String(), nil)
			return
		}
		first, _ := arr[0].(float64)
		for j, x := range arr {
			if f, ok := x.(float64); !ok || f != first {
				r.Violation("clock-not-constant-within-an-evaluation", fmt.Sprintf("evaluation #%d: reading %d is %v, reading 0 is %v", k+1, j, x, arr[0]), nil)
				return
			}
		}
	}
	r.Outcome("compared")
	r.Held()
}

// Evaluation leaves the compiled expression as it was: path shapes built from
// the keep-array marker, order-by, predicates, groupings and steps in every
// order are evaluated on an input in which they select something; the syntax
// tree (structural hash over VerifNode) and the printed form must not change,
// and the outcome must be the same every time.
func c05Structure(i int64, seed uint64, r *fw.Rec) {
	rr := prng.New(seed, 0xC05A, uint64(i))
	var tree jast.Node = &jast.Name{V: "arr"}
	asPath := func(n jast.Node) *jast.Path {
		if p, ok := n.(*jast.Path); ok {
			return &jast.Path{Steps: append([]jast.Node{}, p.Steps...), Keep: p.Keep}
		}
		return &jast.Path{Steps: []jast.Node{n}}
	}
	grouped := false
	for k, n := 0, rr.Range(2, 5); k < n; k++ {
		switch rr.Intn(6) {
		case 0:
			p := asPath(tree)
			p.Keep = true
			tree = p
		case 1:
			if !grouped {
				tree = &jast.Sort{X: tree, Terms: []jast.SortTerm{{Dir: rr.Pick("", ">", "<"), X: &jast.Name{V: rr.Pick("v", "k")}}}}
			}
		case 2:
			if !grouped {
				tree = &jast.Pred{X: tree, Filters: []jast.Node{[]jast.Node{&jast.Num{V: 0}, &jast.Num{V: -1}, &jast.Bin{Op: ">", L: &jast.Name{V: "v"}, R: &jast.Num{V: 1}}}[rr.Intn(3)]}}
			}
		case 3:
			p := asPath(tree)
			p.Steps = append(p.Steps, &jast.Name{V: rr.Pick("v", "k", "a")})
			tree = p
		case 4:
			if !grouped {
				grouped = true
				tree = &jast.Group{X: tree, Pairs: [][2]jast.Node{{&jast.Name{V: "k"}, &jast.Name{V: "v"}}}}
			}
		default:
			p := asPath(tree)
			p.Steps = append(p.Steps, &jast.Block{Exprs: []jast.Node{&jast.Var{Name: ""}}})
			tree = p
		}
	}
	prog := jast.Print(jast.Normalize(tree), jast.Style{Space: 1})
	docJSON := `{"arr":[{"k":"a","v":2},{"k":"b","v":1},{"k":"a","v":3}]}`
	if rr.Intn(4) == 0 {
		docJSON = `{"arr":{"k":"a","v":2}}`
	}
	nEval := 3
	if rr.Intn(6) == 0 {
		// value-based built-ins over equal objects with several members: the same
		// outcome every time, however the members of a Go map come out
		prog = rr.Pick("$distinct(dup)", "$distinct($append(dup, dup))", "$count($distinct(dup))", "dup[0] = dup[1]", "$distinct(dup.d)", "$string(dup[0]) = $string(dup[1])", "dup[0] in dup", "$distinct([dup[0], dup[1].d, dup[1]])")
		docJSON = `{"dup":[{"a":1,"b":"x","c":[1,2],"d":{"p":1,"q":2,"r":3,"s":4}},{"d":{"s":4,"r":3,"q":2,"p":1},"c":[1,2],"b":"x","a":1},{"a":1,"b":"x","c":[1,2],"d":{"p":1,"q":2,"r":3,"s":4}}]}`
		nEval = 12
	}
	r.Begin(prog, docJSON)
	r.Tag("structure-preserved")
	e, co := obs.Compile(prog)
	if e == nil {
		// (not every combination is a legal program: a predicate on a grouping is not)
		r.Outcome(co.Class())
		r.Held()
		return
	}
	r.Nontrivial(prog + docJSON)
	h0, s0 := astHash(e.VerifNode()), e.String()
	first := ""
	for k := 0; k < nEval; k++ {
		r.Evals(1)
		d := digest(obs.Eval(e, decodeDoc(docJSON)), false, false)
		if k == 0 {
			first = d
		} else if d != first {
			r.Violation("outcome-changed:same-input", fmt.Sprintf("evaluation #%d of %s gave %q, the first gave %q", k+1, prog, clipS(d), clipS(first)), nil)
			return
		}
		if h := astHash(e.VerifNode()); h != h0 {
			r.Violation("ast-changed", fmt.Sprintf("the syntax tree of %s changed during Eval #%d", prog, k+1), map[string]any{"before": s0, "after": e.String()})
			return
		}
		if s := e.String(); s != s0 {
			r.Violation("string-changed", fmt.Sprintf("Expr.String() changed during Eval #%d: %q -> %q", k+1, clipS(s0), clipS(s)), nil)
			return
		}
	}
	r.Outcome("compared")
	r.Held()
}

// A regex literal is part of the compiled expression: how it matches must not
// depend on what it was matched against before. The patterns are alternations
// whose first alternative that matches is not the longest one (so any switch of
// the matching discipline shows), with branches that can match the empty string
// for some inputs only; one Expr is evaluated on a history of inputs and each
// outcome must be the one a fresh Expr gives for that input.
var c05RegexPatterns = []string{`a|ab`, `a|ab|^x*`, `(a|ab)(c|bcd)?`, `x*|xy`, `b?|ba`, `(|a)b|ab+`, `a*?b|a+`, `(a|b)*?b`, `^|a|ab`, `a{1,2}?|aab`, `(?i)A|aB`, `[ab]|ab$`}

var c05RegexTemplates = []string{
	`$match(s, /RE/).match`,
	`$replace(s, /RE/, "<$0>")`,
	`$split(s, /RE/)`,
	`$contains(s, /RE/)`,
	`/RE/(s).[match, start, end]`,
	`s ~> /RE/`,
	`$match(s, /RE/).[match, index, groups]`,
	`$replace(s, /RE/, function($m){"[" & $m.match & "]"})`,
	`($r := /RE/; [$r(s).match, $r(s).next().match])`,
	`$map(ss, function($x){$match($x, /RE/)[0].match})`,
	`$replace(s, /RE/, "-", 2)`,
	`$split(s, /RE/, 3)`,
}

func c05Regex(i int64, seed uint64, r *fw.Rec) {
	rr := prng.New(seed, 0xC05D, uint64(i))
	re := c05RegexPatterns[rr.Intn(len(c05RegexPatterns))]
	prog := strings.ReplaceAll(c05RegexTemplates[rr.Intn(len(c05RegexTemplates))], "RE", re)
	word := func() string {
		n := rr.Range(0, 5)
		b := make([]byte, n)
		for k := range b {
			b[k] = "aabbxcdyAB"[rr.Intn(10)]
		}
		return string(b)
	}
	mkDoc := func() string {
		return gen.JSON(O{"s": word(), "ss": A{word(), word(), word()}})
	}
	first := mkDoc()
	r.Begin(prog, first)
	r.Tag("regex-literal-keeps-its-matching")
	e, co := obs.Compile(prog)
	if e == nil {
		r.Violation("harness:regex-program-does-not-compile", prog+": "+co.String(), nil)
		return
	}
	var hist []string
	n := rr.Range(4, 9)
	for k := 0; k < n; k++ {
		doc := first
		if k > 0 {
			doc = mkDoc()
		}
		fe, _ := obs.Compile(prog)
		r.Evals(2)
		want := digest(obs.Eval(fe, decodeDoc(doc)), false, false)
		got := digest(obs.Eval(e, decodeDoc(doc)), false, false)
		hist = append(hist, doc)
		if got != want {
			r.Violation("outcome-changed:regex-literal-matches-differently-after-earlier-evaluations", fmt.Sprintf("%s on %s gave %q, a fresh Expr gives %q; history of this Expr: %s", prog, doc, clipS(got), clipS(want), strings.Join(hist, " | ")), nil)
			return
		}
	}
	r.Nontrivial(prog + fmt.Sprint(i))
	r.Outcome("compared")
	r.Held()
	r.Sample("regex-literal-keeps-its-matching", map[string]any{"prog": prog, "history": hist})
}
