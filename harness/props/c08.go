package props

import (
	"fmt"
	"strings"
	"unicode/utf8"

	jsonata "github.com/blues/jsonata-go"
	"github.com/blues/jsonata-go/jparse"

	"verif/harness/fw"
	"verif/harness/gen"
	"verif/harness/jast"
	"verif/harness/prng"
)

// C08: Compile is total.

var c08Alpha3 = []string{"a", "$", "1", ".", "[", "]", "(", ")", "{", "}", "\"", "'", "`", "/", "\\", "!", "~", ":", "<", "?", "*", "-", " ", "é"}
var c08SigAlpha = []string{"n", "s", "a", "f", "(", ")", "<", ">", "?", "+", "-", ":", "!", "x", "é", " ", "\f", "\u00a0"}

var c08Soup = []string{"a", "b", "$", "$x", "$$", "1", "0", "1.5", "1e5", "1e", "\"s\"", "'t'", "`n`", ".", "..", "[", "]", "(", ")", "{", "}", ",", ";", ":", ":=", "?", "+", "-", "*", "**", "/", "%", "|", "=", "!=", "<", "<=", ">", ">=", "~>", "^", "&", "!", "~", "and", "or", "in", "true", "false", "null", "function", "λ", "\\", "\"", "'", "`", " ", "\n", "é", "😀", "\\u", "\\u00", "\\ud83d", "/a/", "/a/i", "/", "[]", "()", "{}", "<n>", "<s-:s>", "<a<n>>", "\x00", "\xff", "\xc3", "\f", "\v", "\u00a0", "\u0085", "\u2028", "\u3000",
	// tokens that spell what an error message is assembled from (placeholders of the
	// message templates, formatting verbs): rendering the error must still end
	"\"{{token}}\"", "`{{hint}}`", "'{{token}}{{hint}}'", "{{token}}", "\"%s%d%!v\""}

func enumStrings(alpha []string, maxLen int) int64 {
	var n, p int64 = 0, 1
	for l := 1; l <= maxLen; l++ {
		p *= int64(len(alpha))
		n += p
	}
	return n
}

// nthString returns the i-th string (0-based) in length-then-lexicographic order.
func nthString(alpha []string, i int64) string {
	k := int64(len(alpha))
	l := 1
	p := k
	for i >= p {
		i -= p
		p *= k
		l++
	}
	parts := make([]string, l)
	for j := l - 1; j >= 0; j-- {
		parts[j] = alpha[i%k]
		i /= k
	}
	return strings.Join(parts, "")
}

func c08Seeds(seed uint64, n int) []string {
	out := make([]string, 0, n+40)
	// hand-written seeds weighted towards escapes, numbers, regexes, names, signatures
	out = append(out,
		`"a\n\t\"\\\/\b\f\r"`, `"é😀"`, `'it''s'`, `"\ud83d"`, `1.5e+10`, `0.5`, `1e-7`, `12345678901234567890`,
		`$match(s, /a(b)?c/i)`, `/[/]\//`, `/a{2,3}/m`, "`b c`.`and`", "a.`b`[0]", `function($x)<n-:n>{$x+1}`, `function($a,$b)<a<n>s?:s>{$b}`,
		`λ($f)<f<n:n>>{$f(1)}`, `function($x)<(ns)+>{$x}`, `$x := 1; $x`, `($x := 1; $x)`, `a ? b : c`, `a[b=1].c{d: $sum(e)}`, `a^(<b, >c)`,
		`|a|{"b":1},["c"]|`, `a ~> $f(1) ~> $g`, `[1..5]`, `{"a":1,"b":[1,2]}`, `a.*.**.b[]`, `$$.a.$.b`, `a and b or c in d`, `-a * -1`,
		// partial applications whose bound arguments are paths, predicates and [] (nodes the
		// optimiser rewrites), invoked so that the arguments are evaluated
		`$substringBefore(?, a.sep)("foo-bar")`, `$append(?, a[0])(1)`, `$append(?, a[])(1)`, `"x" ~> $substringAfter(?, seps[0])`, `$append(a.b[c=1], ?)(2)`, `$zip(?, a.b, c[])([1])`,
		`$map([1], $append(?, a.b))`, `$sum(?)(a.b)`, `function($x){$x}(?)(a.b[0])`,
		`a.1.c`, `a.1`, `a."s".b`, `x.true.y`, `a.null.b.c`, `a.b.2.c[0]`,
		`1 "{{token}}"`, "1 `{{token}}`", `"{{hint}}" := 1`, "a.`{{hint}}` `{{token}}`", `$f("{{token}}" "{{hint}}")`, `1 "%s"`,
		`a.b.(c+1)`, `$f(?, 1)(2)`, `"a" & 1 & true`, `a != b`, `a <= b and c >= d`, `%`, `a % 2`,
	)
	for i := 0; len(out) < n+58; i++ {
		r := prng.New(seed, 0xC08, uint64(i))
		g := gen.NewChaos(r, 3, false)
		_, s := g.Program(jast.Style{Space: r.Intn(2)})
		if len(s) <= 160 {
			out = append(out, s)
		}
	}
	return out
}

var c08Insert = []string{"a", "$", "1", ".", "[", "]", "(", ")", "{", "}", "\"", "'", "`", "/", "\\", "!", "~", ":", "<", ">", "?", "*", "-", "+", "=", "&", "|", "^", ",", ";", "%", " ", "é", "😀", "e", "u", "0", "\n", "\xff", "λ"}

func mutate(r *prng.R, s string) string {
	if len(s) == 0 {
		return c08Insert[r.Intn(len(c08Insert))]
	}
	pos := r.Intn(len(s) + 1)
	switch r.Intn(5) {
	case 0: // delete a byte
		if pos >= len(s) {
			pos = len(s) - 1
		}
		return s[:pos] + s[pos+1:]
	case 1: // insert
		return s[:pos] + c08Insert[r.Intn(len(c08Insert))] + s[pos:]
	case 2: // replace
		if pos >= len(s) {
			pos = len(s) - 1
		}
		return s[:pos] + c08Insert[r.Intn(len(c08Insert))] + s[pos+1:]
	case 3: // duplicate a byte
		if pos >= len(s) {
			pos = len(s) - 1
		}
		return s[:pos+1] + s[pos:]
	}
	return s[:pos] // truncate
}

func c08Input(i int64, tier string, seed uint64, seeds []string, nEx1, nEx2 int64) (string, string) {
	if i < nEx1 {
		return nthString(c08Alpha3, i), "exhaustive-len3"
	}
	i -= nEx1
	if i < nEx2 {
		return "function($x)<" + nthString(c08SigAlpha, i) + ">{$x}", "exhaustive-signature"
	}
	i -= nEx2
	r := prng.New(seed, 0xC08C, uint64(i))
	switch i % 8 {
	case 0: // random bytes / invalid UTF-8
		n := r.Range(1, 40)
		b := make([]byte, n)
		for j := range b {
			if r.Intn(3) == 0 {
				b[j] = byte(r.Intn(256))
			} else {
				const cs = " !\"#$%&'()*+,-./0123456789:;<=>?@ABab[\\]^_`{|}~"
				b[j] = cs[r.Intn(len(cs))]
			}
		}
		return string(b), "random-bytes"
	case 1, 2: // token soup
		n := r.Range(1, 14)
		var sb strings.Builder
		for j := 0; j < n && sb.Len() < 250; j++ {
			sb.WriteString(c08Soup[r.Intn(len(c08Soup))])
			if r.Intn(4) == 0 {
				sb.WriteByte(' ')
			}
		}
		return sb.String(), "token-soup"
	case 3: // valid generated program
		g := gen.NewChaos(r, 4, false)
		_, s := g.Program(jast.Style{Space: r.Intn(3), Single: r.Bool(), Rnd: r.Intn})
		if len(s) > 256 {
			s = s[:256]
		}
		return s, "valid-program"
	case 4: // signature soup
		n := r.Range(0, 8)
		var sb strings.Builder
		for j := 0; j < n; j++ {
			sb.WriteString(c08SigAlpha[r.Intn(len(c08SigAlpha))])
		}
		np := r.Intn(3)
		ps := []string{"", "$x", "$x,$y"}[np]
		return "function(" + ps + ")<" + sb.String() + ">{1}", "signature-soup"
	default: // single (or double) edit of a seed
		if i%40 == 5 {
			// deep nesting: one prefix (and its closer) repeated 30..150 times
			// around an operand - the work of Compile stays proportional to
			// the length of the text
			nest := [][2]string{{"-", ""}, {"(", ")"}, {"[", "]"}, {"-(", ")"}, {"$f(", ")"}, {"a.", ""}, {"a[", "]"}, {"{\"a\":", "}"}, {"- ", ""}, {"-[", "]"},
				{"function(){", "}"}, {"a~>$f(", ")"}, {"-a.(", ")"}, {"(-", ")"}, {"1+", ""}, {"-$f(", ")"}, {"a ? ", " : 0"}, {"-(a;", ")"}, {"|a|", "|"}, {"a^(", ")"}}[r.Intn(20)]
			k := r.Range(30, 150)
			operand := r.Pick("a", "$x", "1", "\"s\"", "(a)", "a.b", "-a", "")
			return strings.Repeat(nest[0], k) + operand + strings.Repeat(nest[1], k), "deep-nesting"
		}
		s := seeds[r.Intn(len(seeds))]
		if r.Intn(6) == 0 {
			return s, "seed-unchanged"
		}
		s = mutate(r, s)
		if r.Intn(4) == 0 {
			s = mutate(r, s)
		}
		return s, "seed-mutation"
	}
}

func init() {
	fw.Register(&fw.Prop{
		ID:    "C08",
		Title: "Compile is total",
		Rule: "inputs: all strings of <=3 symbols over a 24-symbol alphabet and all lambda signatures of <=4 symbols over a 15-symbol alphabet (both exhaustive), then PRNG-generated random bytes, token soup, valid generated programs, signature soup and single/double-edit mutants of seed programs; " +
			"non-trivial = input that is not accepted as a bare name/number (it contains at least one operator, quote, bracket or non-ASCII byte); distinct by input text",
		Assumptions: []string{"panics inside jparse.Parse lose their original frames (Parse re-panics), so the site is reported as the message class", "termination is judged by process CPU time (2 s, then 30 s alone), not wall clock"},
		Plan: func(tier string, seed uint64) *fw.Plan {
			nEx1 := enumStrings(c08Alpha3, 3)
			nEx2 := enumStrings(c08SigAlpha, 4)
			nRand := int64(100000)
			if tier == "thorough" {
				nRand = 4000000
			}
			seeds := c08Seeds(seed, 460)
			return &fw.Plan{
				N: nEx1 + nEx2 + nRand,
				Subspaces: []string{
					fmt.Sprintf("all %d strings of length<=3 over %v", nEx1, c08Alpha3),
					fmt.Sprintf("all %d signatures function($x)<S>{$x}, |S|<=4 over %v", nEx2, c08SigAlpha),
				},
				Run: func(i int64, r *fw.Rec) {
					s, kind := c08Input(i, tier, seed, seeds, nEx1, nEx2)
					c08Check(r, s, kind)
				},
			}
		},
	})
}

func c08Check(r *fw.Rec, s string, kind string) {
	r.Begin(s, "")
	r.Tag("wl:" + kind)
	if strings.ContainsAny(s, "[]{}()\"'`/\\!~:<>?*+-=&|^,;%.$") || !utf8.ValidString(s) || strings.ContainsFunc(s, func(c rune) bool { return c > 127 }) {
		r.Nontrivial(s)
	}
	var e *jsonata.Expr
	var err error
	pi := fw.Guard(func() { e, err = jsonata.Compile(s) })
	if pi != nil {
		r.Outcome("panic")
		r.ViolationStack("panic:Compile:"+pi.Class, "Compile panicked: "+pi.Value, pi.Stack, nil)
		return
	}
	viol := func(sig, det string) {
		r.Violation(sig, det, nil)
	}
	bad := false
	switch {
	case e == nil && err == nil:
		viol("nil-nil", "Compile returned (nil, nil)")
		bad = true
	case e != nil && err != nil:
		viol("both", "Compile returned both an expression and an error")
		bad = true
	case err != nil:
		pe, ok := err.(*jparse.Error)
		if !ok {
			viol("error-type", fmt.Sprintf("Compile error has type %T, want *jparse.Error", err))
			bad = true
			break
		}
		r.Outcome(fmt.Sprintf("error:%d", pe.Type))
		if pe.Type < jparse.ErrSyntaxError || pe.Type > jparse.ErrInvalidParamType {
			viol("error-kind", fmt.Sprintf("parse error type %d outside the defined range", pe.Type))
			bad = true
		}
		msg := pe.Error()
		if msg == "" || strings.Contains(msg, "unknown error type") {
			viol("error-message", fmt.Sprintf("parse error has no proper message: %q", msg))
			bad = true
		}
		if pe.Position < 0 || pe.Position > len(s) {
			viol("error-position", fmt.Sprintf("parse error position %d outside input of length %d", pe.Position, len(s)))
			bad = true
		}
	default:
		r.Outcome("expr")
	}
	// jparse.Parse agrees with Compile
	var node jparse.Node
	var perr error
	if pi := fw.Guard(func() { node, perr = jparse.Parse(s) }); pi != nil {
		r.ViolationStack("panic:Parse:"+pi.Class, "jparse.Parse panicked: "+pi.Value, pi.Stack, nil)
		return
	}
	if (perr == nil) != (err == nil) || (node == nil) != (e == nil) {
		viol("parse-compile-disagree", fmt.Sprintf("jparse.Parse err=%v but Compile err=%v", perr, err))
		bad = true
	}
	// MustCompile panics exactly when Compile errs
	var me *jsonata.Expr
	mp := fw.Guard(func() { me = jsonata.MustCompile(s) })
	if (mp != nil) != (err != nil) {
		viol("mustcompile", fmt.Sprintf("MustCompile panicked=%v but Compile err=%v", mp != nil, err))
		bad = true
	}
	if mp == nil && me == nil {
		viol("mustcompile-nil", "MustCompile returned nil without panicking")
		bad = true
	}
	if e != nil {
		// a returned expression can be printed ...
		if pi := fw.Guard(func() { _ = e.String() }); pi != nil {
			r.ViolationStack("panic:String:"+pi.Site+":"+pi.Class, "Expr.String panicked: "+pi.Value, pi.Stack, nil)
			bad = true
		}
		// ... and evaluated: node dispatch must know every node the parser returns.
		// Only programs that cannot recurse or allocate much are evaluated here;
		// all other Eval behaviour is C09's business.
		if !strings.Contains(s, "function") && !strings.Contains(s, "λ") && !strings.Contains(s, "..") && !strings.Contains(s, "$pad") && len(s) <= 120 {
			r.Evals(1)
			if pi := fw.Guard(func() { _, _ = e.Eval(nil) }); pi != nil {
				r.Count("eval_panics_seen_(judged_by_C09)", 1)
				if strings.Contains(pi.Value, "unexpected node") || strings.Contains(pi.Value, "unrecognised") {
					r.ViolationStack("eval-dispatch:"+pi.Class, "a compiled expression cannot be evaluated: "+pi.Value, pi.Stack, nil)
					bad = true
				}
			}
		}
	}
	if !bad {
		r.Held()
	}
	if err != nil {
		r.Sample("error", map[string]any{"input": s, "error": err.Error(), "workload": kind})
	} else {
		r.Sample("expr:"+kind, map[string]any{"input": s, "printed": e.String(), "workload": kind})
	}
}
