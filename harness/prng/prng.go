// Package prng is a tiny deterministic generator (splitmix64). Every random
// choice in the harness is a pure function of (seed, property, case index).
package prng

import "math"

type R struct{ s uint64 }

func mix(z uint64) uint64 {
	z += 0x9e3779b97f4a7c15
	z = (z ^ (z >> 30)) * 0xbf58476d1ce4e5b9
	z = (z ^ (z >> 27)) * 0x94d049bb133111eb
	return z ^ (z >> 31)
}

// New derives a stream from a seed and any number of keys.
func New(seed uint64, keys ...uint64) *R {
	s := mix(seed)
	for _, k := range keys {
		s = mix(s ^ mix(k))
	}
	return &R{s: s}
}

// Hash of a string to uint64 (FNV-1a then mixed) for keying streams.
func HashString(s string) uint64 {
	h := uint64(14695981039346656037)
	for i := 0; i < len(s); i++ {
		h ^= uint64(s[i])
		h *= 1099511628211
	}
	return mix(h)
}

func (r *R) U64() uint64 {
	r.s += 0x9e3779b97f4a7c15
	z := r.s
	z = (z ^ (z >> 30)) * 0xbf58476d1ce4e5b9
	z = (z ^ (z >> 27)) * 0x94d049bb133111eb
	return z ^ (z >> 31)
}

// Intn returns a value in [0,n). n must be > 0.
func (r *R) Intn(n int) int {
	if n <= 0 {
		return 0
	}
	return int(r.U64() % uint64(n))
}

// Range returns a value in [lo,hi].
func (r *R) Range(lo, hi int) int {
	if hi <= lo {
		return lo
	}
	return lo + r.Intn(hi-lo+1)
}

func (r *R) Bool() bool { return r.U64()&1 == 1 }

// P returns true with probability p.
func (r *R) P(p float64) bool { return r.Float() < p }

func (r *R) Float() float64 { return float64(r.U64()>>11) / float64(1<<53) }

// Pick returns one of the strings.
func (r *R) Pick(xs ...string) string { return xs[r.Intn(len(xs))] }

func (r *R) PickF(xs ...float64) float64 { return xs[r.Intn(len(xs))] }

// Fork derives an independent stream.
func (r *R) Fork(k uint64) *R { return New(r.U64(), k) }

// Bits returns a random float64 from random bits, finite.
func (r *R) FiniteBits() float64 {
	for {
		f := math.Float64frombits(r.U64())
		if !math.IsNaN(f) && !math.IsInf(f, 0) {
			return f
		}
	}
}
