// Package fw is the runtime-monitoring framework shared by all properties:
// deterministic case plans, per-shard worker processes with .cur files and a
// CPU-time watchdog, event recording, known-findings matching and evidence.
package fw

import (
	"encoding/binary"
	"encoding/json"
	"fmt"
	"os"
	"path/filepath"
	"runtime"
	"runtime/debug"
	"runtime/pprof"
	"sort"
	"strings"
	"sync"
	"sync/atomic"
	"syscall"
	"time"

	"verif/harness/prng"
)

// Verdicts.
const (
	Held = iota
	Violation
	Inconclusive
)

// Exit codes reserved by workers.
const (
	ExitHang     = 41
	ExitMem      = 42
	ExitHarness  = 43 // a panic escaped the harness itself
	ExitNoEvents = 3
)

// Prop describes one property check.
type Prop struct {
	ID    string
	Title string
	Rule  string // how cases are generated and what counts as non-trivial
	// Plan returns the deterministic case plan for a tier and seed.
	Plan func(tier string, seed uint64) *Plan
	// Race marks checks that need the -race build of the worker.
	Race bool
	// Post, if non-nil, runs in the driver after all shards finished, over
	// the merged side-channel records (used by history checkers).
	Post func(d *Driver)
	// Workers overrides the number of worker processes (0 = default).
	Workers int
	// GoMaxProcs for each worker (0 = 2: one for the case, one for the watchdog).
	GoMaxProcs int
	// Assumptions go to the evidence file.
	Assumptions []string
}

// Plan is a finite, indexable list of cases.
type Plan struct {
	N         int64
	Subspaces []string // exhaustively enumerated sub-spaces (description + size)
	// Run generates case i, executes it against the library and judges it.
	Run func(i int64, r *Rec)
	// CPUBudget per case in seconds before the watchdog declares it suspect
	// (0 = default 2s).
	CPUBudget float64
	// Init, if set, runs once in each worker before the first case.
	Init func(r *Rec)
	// Fini runs once in each worker after its last case.
	Fini func(r *Rec)
}

var registry = map[string]*Prop{}

func Register(p *Prop) { registry[p.ID] = p }

func Lookup(id string) *Prop { return registry[id] }

func All() []string {
	var ids []string
	for id := range registry {
		ids = append(ids, id)
	}
	sort.Strings(ids)
	return ids
}

// ViolationRec is one recorded violation.
type ViolationRec struct {
	Property string         `json:"property"`
	Tier     string         `json:"tier"`
	Seed     uint64         `json:"seed"`
	Case     int64          `json:"case"`
	Sig      string         `json:"sig"`
	Detail   string         `json:"detail"`
	Prog     string         `json:"prog,omitempty"`
	Doc      string         `json:"doc,omitempty"`
	Extra    map[string]any `json:"extra,omitempty"`
	Stack    string         `json:"stack,omitempty"`
}

// Stats is the mergeable summary of a shard.
type Stats struct {
	Next         int64            `json:"next"` // next case index to run (for restart)
	Evaluations  int64            `json:"evaluations"`
	Cases        int64            `json:"cases"`
	Outcomes     map[string]int64 `json:"outcomes"`
	Tags         map[string]int64 `json:"tags"`
	Verdicts     map[string]int64 `json:"verdicts"`
	Inconclusive []string         `json:"inconclusive,omitempty"`
	Samples      []any            `json:"samples,omitempty"`
	Counters     map[string]int64 `json:"counters,omitempty"`
	ViolBySig    map[string]int64 `json:"viol_by_sig,omitempty"`
	Done         bool             `json:"done"`
}

func newStats() *Stats {
	return &Stats{Outcomes: map[string]int64{}, Tags: map[string]int64{}, Verdicts: map[string]int64{},
		Counters: map[string]int64{}, ViolBySig: map[string]int64{}}
}

// Rec is handed to Plan.Run; it records what the monitors observed.
type Rec struct {
	mu       sync.Mutex
	prop     *Prop
	tier     string
	seed     uint64
	dir      string
	shard    int
	stats    *Stats
	hashes   map[uint64]struct{}
	hashFile *os.File
	hashBuf  []byte
	violFile *os.File
	sideFile *os.File
	curPath  string
	curMap   []byte

	// current case
	curCase    int64
	curProg    string
	curDoc     string
	caseTags   map[string]struct{}
	sampleKind map[string]int
	caseStart  time.Duration // process CPU at case start
	inCase     bool
	extraCPU   atomic.Int64 // nanoseconds added to this case's CPU budget (ExpectCost)
	single     bool // running a single case (replay / isolated rerun)
	quiet      bool
	lastViol   *ViolationRec
	maxSamples int
}

func cpuNow() time.Duration {
	var ru syscall.Rusage
	syscall.Getrusage(syscall.RUSAGE_SELF, &ru)
	return time.Duration(ru.Utime.Nano() + ru.Stime.Nano())
}

// Tier and Seed accessors.
func (r *Rec) Tier() string  { return r.tier }
func (r *Rec) Seed() uint64  { return r.seed }
func (r *Rec) Shard() int    { return r.shard }
func (r *Rec) Case() int64   { return r.curCase }
func (r *Rec) Single() bool  { return r.single }
func (r *Rec) Dir() string   { return r.dir }
func (r *Rec) PropID() string { return r.prop.ID }

// Begin announces the program/input about to be handed to the library. It is
// written to the shard's .cur file before the call so that a crash or hang can
// be attributed.
// ExpectCost declares, at the start of a case, that the case legitimately costs
// about sec seconds of CPU on an idle machine (a deliberately large input, e.g.
// the largest range that is not an error). Its CPU budget is raised by twenty
// times that, in its shard and when it is re-run alone: CPU time is not immune
// to load (memory bandwidth, page faults, the garbage collector's helpers), and
// a case that is known to be three orders of magnitude above the median must
// not be judged by the margin that suits the median.
func (r *Rec) ExpectCost(sec float64) {
	r.extraCPU.Store(int64(20 * sec * float64(time.Second)))
}

func (r *Rec) Begin(prog, doc string) {
	r.mu.Lock()
	r.curProg, r.curDoc = prog, doc
	r.stats.Evaluations++
	r.mu.Unlock()
	r.writeCur()
}

const curSize = 1 << 18

// writeCur stores the current case in a shared file mapping: no system call
// per case, and the kernel keeps the bytes if the process dies.
func (r *Rec) writeCur() {
	if r.curMap == nil {
		f, err := os.OpenFile(r.curPath, os.O_CREATE|os.O_RDWR|os.O_TRUNC, 0o644)
		if err != nil {
			return
		}
		f.Truncate(curSize)
		m, err := syscall.Mmap(int(f.Fd()), 0, curSize, syscall.PROT_READ|syscall.PROT_WRITE, syscall.MAP_SHARED)
		f.Close()
		if err != nil {
			return
		}
		r.curMap = m
	}
	prog, doc := r.curProg, r.curDoc
	if len(prog) > 100000 {
		prog = prog[:100000]
	}
	if len(doc) > 100000 {
		doc = doc[:100000]
	}
	b, _ := json.Marshal(map[string]any{"property": r.prop.ID, "tier": r.tier, "seed": r.seed,
		"case": r.curCase, "prog": prog, "doc": doc})
	if len(b)+8 > curSize {
		b, _ = json.Marshal(map[string]any{"property": r.prop.ID, "tier": r.tier, "seed": r.seed, "case": r.curCase})
	}
	binary.LittleEndian.PutUint32(r.curMap[0:4], 0) // invalidate while writing
	copy(r.curMap[8:], b)
	binary.LittleEndian.PutUint32(r.curMap[4:8], uint32(len(b)))
	binary.LittleEndian.PutUint32(r.curMap[0:4], 0xC0FFEE01)
}

// ReadCurFile decodes a .cur file written by writeCur.
func ReadCurFile(path string) []byte {
	b, err := os.ReadFile(path)
	if err != nil || len(b) < 8 || binary.LittleEndian.Uint32(b[0:4]) != 0xC0FFEE01 {
		return nil
	}
	n := int(binary.LittleEndian.Uint32(b[4:8]))
	if n+8 > len(b) {
		return nil
	}
	return b[8 : 8+n]
}

// Evals adds n to the evaluation count (for cases that perform several calls
// without a Begin each).
func (r *Rec) Evals(n int) {
	r.mu.Lock()
	r.stats.Evaluations += int64(n)
	r.mu.Unlock()
}

// Tag records feature tags exercised.
func (r *Rec) Tag(tags ...string) {
	r.mu.Lock()
	for _, t := range tags {
		r.stats.Tags[t]++
	}
	r.mu.Unlock()
}

// Outcome records the outcome kind of a library call.
func (r *Rec) Outcome(kind string) {
	r.mu.Lock()
	r.stats.Outcomes[kind]++
	r.mu.Unlock()
}

// Count bumps a named counter.
func (r *Rec) Count(name string, n int64) {
	r.mu.Lock()
	r.stats.Counters[name] += n
	r.mu.Unlock()
}

// Nontrivial registers a distinct non-trivial case key.
func (r *Rec) Nontrivial(key string) {
	h := prng.HashString(key)
	r.mu.Lock()
	if _, ok := r.hashes[h]; !ok {
		r.hashes[h] = struct{}{}
		if r.hashFile != nil {
			var b [8]byte
			binary.LittleEndian.PutUint64(b[:], h)
			r.hashBuf = append(r.hashBuf, b[:]...)
			if len(r.hashBuf) >= 1<<16 {
				r.hashFile.Write(r.hashBuf)
				r.hashBuf = r.hashBuf[:0]
			}
		}
	}
	r.mu.Unlock()
}

// Sample offers a case for the evidence samples (kept: a few per kind).
func (r *Rec) Sample(kind string, v any) {
	r.mu.Lock()
	defer r.mu.Unlock()
	if r.sampleKind[kind] >= 2 || len(r.stats.Samples) >= r.maxSamples {
		return
	}
	r.sampleKind[kind]++
	r.stats.Samples = append(r.stats.Samples, v)
}

// Held records that the oracle judged the current observation as conforming.
func (r *Rec) Held() {
	r.mu.Lock()
	r.stats.Verdicts["held"]++
	r.mu.Unlock()
}

// Inconclusive records an observation that could not be judged.
func (r *Rec) Inconclusive(reason string) {
	r.mu.Lock()
	r.stats.Verdicts["inconclusive"]++
	if len(r.stats.Inconclusive) < 20 {
		r.stats.Inconclusive = append(r.stats.Inconclusive, fmt.Sprintf("case %d: %s", r.curCase, reason))
	}
	r.mu.Unlock()
}

// Violation records a refuting observation.
func (r *Rec) Violation(sig, detail string, extra map[string]any) {
	r.violation(sig, detail, extra, "")
}

// ViolationStack is Violation with a stack trace attached.
func (r *Rec) ViolationStack(sig, detail, stack string, extra map[string]any) {
	r.violation(sig, detail, extra, stack)
}

func (r *Rec) violation(sig, detail string, extra map[string]any, stack string) {
	r.mu.Lock()
	defer r.mu.Unlock()
	r.stats.Verdicts["violated"]++
	r.stats.ViolBySig[sig]++
	v := &ViolationRec{Property: r.prop.ID, Tier: r.tier, Seed: r.seed, Case: r.curCase, Sig: sig,
		Detail: clip(detail, 4000), Prog: r.curProg, Doc: r.curDoc, Extra: extra, Stack: clip(stack, 6000)}
	r.lastViol = v
	if r.stats.ViolBySig[sig] > 25 {
		return // keep files bounded when a mutant breaks everything
	}
	if r.violFile != nil {
		b, _ := json.Marshal(v)
		r.violFile.Write(append(b, '\n'))
	}
}

// Side appends a record to the shard's side channel (merged by Prop.Post).
func (r *Rec) Side(v any) {
	b, _ := json.Marshal(v)
	r.mu.Lock()
	if r.sideFile != nil {
		r.sideFile.Write(append(b, '\n'))
	}
	r.mu.Unlock()
}

func clip(s string, n int) string {
	if len(s) > n {
		return s[:n] + "…"
	}
	return s
}

func (r *Rec) flush(done bool, next int64) {
	r.mu.Lock()
	if r.hashFile != nil && len(r.hashBuf) > 0 {
		r.hashFile.Write(r.hashBuf)
		r.hashBuf = r.hashBuf[:0]
	}
	r.stats.Next = next
	r.stats.Done = done
	b, _ := json.Marshal(r.stats)
	r.mu.Unlock()
	tmp := filepath.Join(r.dir, fmt.Sprintf("shard-%d.state.tmp", r.shard))
	os.WriteFile(tmp, b, 0o644)
	os.Rename(tmp, filepath.Join(r.dir, fmt.Sprintf("shard-%d.state.json", r.shard)))
}

// PanicInfo describes a recovered panic.
type PanicInfo struct {
	Value string
	Site  string // first frame inside the repository under test
	Class string // normalised message class
	Stack string
}

// Guard runs f and returns a PanicInfo if it panicked.
func Guard(f func()) (pi *PanicInfo) {
	defer func() {
		if x := recover(); x != nil {
			pi = describePanic(x)
		}
	}()
	f()
	return nil
}

const repoMod = "github.com/blues/jsonata-go"

func describePanic(x any) *PanicInfo {
	msg := fmt.Sprint(x)
	pcs := make([]uintptr, 64)
	n := runtime.Callers(3, pcs)
	frames := runtime.CallersFrames(pcs[:n])
	site := ""
	var sb strings.Builder
	for {
		fr, more := frames.Next()
		fmt.Fprintf(&sb, "%s\n\t%s:%d\n", fr.Function, fr.File, fr.Line)
		if site == "" && strings.HasPrefix(fr.Function, repoMod) {
			fn := strings.TrimPrefix(fr.Function, repoMod)
			fn = strings.TrimPrefix(fn, "/")
			if !strings.Contains(fn, "panicf") {
				site = fn
			}
		}
		if !more {
			break
		}
	}
	return &PanicInfo{Value: clip(msg, 500), Site: site, Class: panicClass(msg), Stack: sb.String()}
}

func panicClass(msg string) string {
	m := strings.ToLower(msg)
	switch {
	case strings.Contains(m, "hash of unhashable"):
		return "unhashable"
	case strings.Contains(m, "slice bounds out of range"):
		return "slice-bounds"
	case strings.Contains(m, "index out of range"):
		return "index-range"
	case strings.Contains(m, "nil pointer"):
		return "nil-deref"
	case strings.Contains(m, "interface conversion"):
		return "iface-conv"
	case strings.Contains(m, "reflect:") || strings.Contains(m, "reflect."):
		return "reflect"
	case strings.Contains(m, "negative repeat") || strings.Contains(m, "repeat count"):
		return "repeat"
	case strings.Contains(m, "makeslice") || strings.Contains(m, "out of memory"):
		return "alloc"
	case strings.Contains(m, "divide by zero"):
		return "div0"
	}
	if len(m) > 40 {
		m = m[:40]
	}
	return m
}

// ---------------------------------------------------------------- worker

// WorkerMain runs one shard (or a single case).
func WorkerMain(propID, tier string, seed uint64, shard, of int, dir string, skip map[int64]bool, single int64, cpu float64) int {
	p := Lookup(propID)
	if p == nil {
		fmt.Fprintf(os.Stderr, "unknown property %s\n", propID)
		return 2
	}
	debug.SetMaxStack(256 << 20)
	plan := p.Plan(tier, seed)
	os.MkdirAll(dir, 0o755)
	r := &Rec{prop: p, tier: tier, seed: seed, dir: dir, shard: shard, stats: newStats(),
		hashes: map[uint64]struct{}{}, sampleKind: map[string]int{}, maxSamples: 12}
	r.curPath = filepath.Join(dir, fmt.Sprintf("shard-%d.cur", shard))
	start := int64(shard)
	if single >= 0 {
		r.single = true
		r.curPath = filepath.Join(dir, fmt.Sprintf("single-%d.cur", single))
	} else {
		// resume from a checkpoint if one exists
		if b, err := os.ReadFile(filepath.Join(dir, fmt.Sprintf("shard-%d.state.json", shard))); err == nil {
			st := newStats()
			if json.Unmarshal(b, st) == nil && !st.Done {
				if st.Outcomes == nil {
					st.Outcomes = map[string]int64{}
				}
				r.stats = st
				if r.stats.Tags == nil {
					r.stats.Tags = map[string]int64{}
				}
				if r.stats.Verdicts == nil {
					r.stats.Verdicts = map[string]int64{}
				}
				if r.stats.Counters == nil {
					r.stats.Counters = map[string]int64{}
				}
				if r.stats.ViolBySig == nil {
					r.stats.ViolBySig = map[string]int64{}
				}
				start = st.Next
				for _, s := range st.Samples {
					_ = s
					r.sampleKind["resumed"]++
				}
			}
		}
		var err error
		r.hashFile, err = os.OpenFile(filepath.Join(dir, fmt.Sprintf("shard-%d.hashes", shard)), os.O_CREATE|os.O_APPEND|os.O_WRONLY, 0o644)
		if err != nil {
			fmt.Fprintln(os.Stderr, err)
			return 2
		}
		r.violFile, _ = os.OpenFile(filepath.Join(dir, fmt.Sprintf("shard-%d.viol.jsonl", shard)), os.O_CREATE|os.O_APPEND|os.O_WRONLY, 0o644)
		r.sideFile, _ = os.OpenFile(filepath.Join(dir, fmt.Sprintf("shard-%d.side.jsonl", shard)), os.O_CREATE|os.O_APPEND|os.O_WRONLY, 0o644)
	}

	budget := plan.CPUBudget
	if budget == 0 {
		budget = 2
	}
	if cpu > 0 {
		budget = cpu
	}
	// watchdog
	var curIdx int64 = -1
	var wmu sync.Mutex
	go func() {
		// A case that is blocked (a deadlock) uses no CPU, so the CPU budget never
		// runs out: a case during which the process has used no CPU time at all
		// for 45 s of wall-clock time is declared blocked. (Machine load cannot
		// cause that: a runnable process still gets some CPU; the code under test
		// and the workloads do not sleep.)
		var markCPU time.Duration
		markWall := time.Now()
		markIdx := int64(-2)
		for {
			time.Sleep(50 * time.Millisecond)
			wmu.Lock()
			in, st, idx := r.inCase, r.caseStart, curIdx
			wmu.Unlock()
			if !in {
				markIdx = -2
				continue
			}
			used := cpuNow() - st
			// (the watchdog's own sampling costs a little CPU: "no CPU" is
			// less than one second of it within 45 s)
			if idx != markIdx {
				markIdx, markCPU, markWall = idx, used, time.Now()
			}
			blocked := false
			if w := time.Since(markWall); w > 45*time.Second {
				if used-markCPU < time.Second {
					blocked = true
				} else {
					markCPU, markWall = used, time.Now()
				}
			}
			var ms runtime.MemStats
			over := blocked || used > time.Duration(budget*float64(time.Second))+time.Duration(r.extraCPU.Load())
			mem := false
			if !over {
				runtime.ReadMemStats(&ms)
				mem = ms.HeapAlloc > 3<<29
			}
			if over || mem {
				f, _ := os.Create(r.curPath + ".dump")
				if f != nil {
					fmt.Fprintf(f, "case %d used %.2fs CPU (budget %.2fs) heap=%d blocked=%v\n", idx, used.Seconds(), budget, ms.HeapAlloc, blocked)
					pprof.Lookup("goroutine").WriteTo(f, 2)
					f.Close()
				}
				if !r.single {
					r.flush(false, idx) // restart at idx; the driver adds it to the skip list
				}
				if mem {
					os.Exit(ExitMem)
				}
				os.Exit(ExitHang)
			}
		}
	}()

	runCase := func(i int64) (harnessPanic *PanicInfo) {
		wmu.Lock()
		r.curCase = i
		curIdx = i
		r.curProg, r.curDoc = "", ""
		r.caseStart = cpuNow()
		r.extraCPU.Store(0)
		r.inCase = true
		wmu.Unlock()
		r.mu.Lock()
		r.stats.Cases++
		r.mu.Unlock()
		pi := Guard(func() { plan.Run(i, r) })
		wmu.Lock()
		r.inCase = false
		wmu.Unlock()
		return pi
	}

	if plan.Init != nil {
		plan.Init(r)
	}

	if single >= 0 {
		r.quiet = false
		pi := runCase(single)
		if pi != nil {
			fmt.Printf("HARNESS-PANIC case=%d %s\n%s\n", single, pi.Value, pi.Stack)
			return ExitHarness
		}
		r.mu.Lock()
		defer r.mu.Unlock()
		out := map[string]any{"case": single, "verdicts": r.stats.Verdicts, "outcomes": r.stats.Outcomes, "prog": r.curProg, "doc": r.curDoc}
		if r.lastViol != nil {
			out["violation"] = r.lastViol
		}
		b, _ := json.MarshalIndent(out, "", " ")
		fmt.Println(string(b))
		if r.stats.Verdicts["violated"] > 0 {
			return 1
		}
		return 0
	}

	n := int64(0)
	i := start
	for ; i < plan.N; i += int64(of) {
		if skip[i] {
			continue
		}
		if pi := runCase(i); pi != nil {
			// a panic that escaped the property's own guards: harness defect
			f, _ := os.Create(r.curPath + ".harnesspanic")
			if f != nil {
				fmt.Fprintf(f, "case %d: %s\n%s\n", i, pi.Value, pi.Stack)
				f.Close()
			}
			r.flush(false, i)
			return ExitHarness
		}
		n++
		// checkpoint: every 1000 cases, more often for short plans (so that the
		// statistics survive a crashing case)
		every := plan.N / int64(of) / 20
		if every < 1 {
			every = 1
		}
		if every > 1000 {
			every = 1000
		}
		if n%every == 0 {
			r.flush(false, i+int64(of))
		}
	}
	if plan.Fini != nil {
		wmu.Lock()
		r.curCase = -1
		wmu.Unlock()
		plan.Fini(r)
	}
	r.flush(true, i)
	return 0
}
