package fw

import (
	"bufio"
	"bytes"
	"crypto/sha1"
	"encoding/binary"
	"encoding/json"
	"fmt"
	"os"
	"os/exec"
	"path/filepath"
	"regexp"
	"sort"
	"strconv"
	"strings"
	"sync"
	"time"
)

// Driver supervises the worker processes of one check run.
type Driver struct {
	Prop     *Prop
	Tier     string
	Seed     uint64
	Root     string // /verif
	Dir      string // work dir
	Bin      string // worker binary
	Workers  int
	Merged   *Stats
	Viol     []*ViolationRec
	Distinct int64
	extraCov map[string]any
	notes    []string
	mu       sync.Mutex
}

// AddViolation lets a Post hook report a violation found by an offline checker.
func (d *Driver) AddViolation(v *ViolationRec) {
	d.mu.Lock()
	v.Property, v.Tier, v.Seed = d.Prop.ID, d.Tier, d.Seed
	d.Viol = append(d.Viol, v)
	d.Merged.Verdicts["violated"]++
	d.mu.Unlock()
}

// Cover adds a key to the evidence coverage object.
func (d *Driver) Cover(k string, v any) {
	d.mu.Lock()
	if d.extraCov == nil {
		d.extraCov = map[string]any{}
	}
	d.extraCov[k] = v
	d.mu.Unlock()
}

func (d *Driver) Inconclusive(s string) {
	d.mu.Lock()
	d.Merged.Verdicts["inconclusive"]++
	d.Merged.Inconclusive = append(d.Merged.Inconclusive, s)
	d.mu.Unlock()
}

// SideRecords streams all side-channel records of all shards.
func (d *Driver) SideRecords(fn func(shard int, line []byte)) {
	for k := 0; k < d.Workers; k++ {
		f, err := os.Open(filepath.Join(d.Dir, fmt.Sprintf("shard-%d.side.jsonl", k)))
		if err != nil {
			continue
		}
		sc := bufio.NewScanner(f)
		sc.Buffer(make([]byte, 1<<20), 64<<20)
		for sc.Scan() {
			fn(k, sc.Bytes())
		}
		f.Close()
	}
}

type finding struct {
	ID       string `json:"id"`
	Property string `json:"property"`
	Sig      string `json:"sig"`                 // regexp on the violation signature
	ProgRe   string `json:"prog_regex,omitempty"` // optional regexp on the program text
	DetailRe string `json:"detail_regex,omitempty"`
	What     string `json:"what"`
	Witness  any    `json:"witness,omitempty"`
	sigRe    *regexp.Regexp
	progRe   *regexp.Regexp
	detRe    *regexp.Regexp
}

type findingsFile struct {
	Known []*finding `json:"known"`
	Fixed []string   `json:"fixed"`
}

func loadFindings(root string) []*finding {
	b, err := os.ReadFile(filepath.Join(root, "known_findings.json"))
	if err != nil {
		return nil
	}
	var ff findingsFile
	if err := json.Unmarshal(b, &ff); err != nil {
		fmt.Fprintf(os.Stderr, "known_findings.json: %v\n", err)
		return nil
	}
	for _, f := range ff.Known {
		f.sigRe = regexp.MustCompile("^(?:" + f.Sig + ")$")
		if f.ProgRe != "" {
			f.progRe = regexp.MustCompile(f.ProgRe)
		}
		if f.DetailRe != "" {
			f.detRe = regexp.MustCompile(f.DetailRe)
		}
	}
	return ff.Known
}

func (f *finding) matches(v *ViolationRec) bool {
	if f.Property != v.Property || !f.sigRe.MatchString(v.Sig) {
		return false
	}
	if f.progRe != nil && !f.progRe.MatchString(v.Prog) {
		return false
	}
	if f.detRe != nil && !f.detRe.MatchString(v.Detail) {
		return false
	}
	return true
}

// DriveMain runs a whole check and returns the process exit code.
func DriveMain(propID, tier string, seed uint64, root, bin string) int {
	p := Lookup(propID)
	if p == nil {
		fmt.Fprintf(os.Stderr, "unknown property %s\n", propID)
		return 2
	}
	t0 := time.Now()
	dir := filepath.Join(root, ".work", propID+"-"+tier)
	os.RemoveAll(dir)
	os.MkdirAll(dir, 0o755)
	nw := 16
	if p.Workers > 0 {
		nw = p.Workers
	}
	plan := p.Plan(tier, seed)
	if int64(nw) > plan.N {
		nw = int(plan.N)
	}
	if nw < 1 {
		nw = 1
	}
	d := &Driver{Prop: p, Tier: tier, Seed: seed, Root: root, Dir: dir, Bin: bin, Workers: nw, Merged: newStats()}

	var wg sync.WaitGroup
	var hangs, crashes []*ViolationRec
	var broken, aborted []string
	for k := 0; k < nw; k++ {
		wg.Add(1)
		go func(k int) {
			defer wg.Done()
			skip := []int64{}
			isolated, nhang := 0, 0
			for attempt := 0; attempt < 200; attempt++ {
				args := []string{"worker", "-prop", propID, "-tier", tier, "-seed", strconv.FormatUint(seed, 10),
					"-shard", strconv.Itoa(k), "-of", strconv.Itoa(nw), "-dir", dir}
				if len(skip) > 0 {
					ss := make([]string, len(skip))
					for i, s := range skip {
						ss[i] = strconv.FormatInt(s, 10)
					}
					args = append(args, "-skip", strings.Join(ss, ","))
				}
				cmd := exec.Command(bin, args...)
				logf, _ := os.OpenFile(filepath.Join(dir, fmt.Sprintf("shard-%d.log", k)), os.O_CREATE|os.O_APPEND|os.O_WRONLY, 0o644)
				cmd.Stdout, cmd.Stderr = logf, logf
				gmp := 2
				if p.GoMaxProcs > 0 {
					gmp = p.GoMaxProcs
				}
				cmd.Env = append(os.Environ(), fmt.Sprintf("GOMAXPROCS=%d", gmp),
					"GORACE=halt_on_error=0 log_path="+filepath.Join(dir, fmt.Sprintf("race-%d", k)))
				err := cmd.Run()
				logf.Close()
				code := 0
				if err != nil {
					if ee, ok := err.(*exec.ExitError); ok {
						code = ee.ExitCode()
					} else {
						code = 2
					}
				}
				if code == 0 {
					return
				}
				cur := readCur(filepath.Join(dir, fmt.Sprintf("shard-%d.cur", k)))
				if cur == nil {
					d.mu.Lock()
					broken = append(broken, fmt.Sprintf("shard %d exit %d without .cur", k, code))
					d.mu.Unlock()
					return
				}
				switch code {
				case ExitHarness:
					b, _ := os.ReadFile(filepath.Join(dir, fmt.Sprintf("shard-%d.cur.harnesspanic", k)))
					d.mu.Lock()
					broken = append(broken, fmt.Sprintf("shard %d: harness panic at case %d: %s", k, cur.Case, clip(string(b), 3000)))
					d.mu.Unlock()
					return
				case ExitHang, ExitMem:
					// re-run the suspect alone with a large CPU budget; after a few
					// confirmed hangs in this shard further suspects are recorded
					// directly (a tree on which everything hangs must not stall the check)
					var v *ViolationRec
					if isolated < 2 {
						v = d.isolate(cur, code)
						if v != nil {
							// (only a suspect that did not terminate alone either counts:
							// on a loaded machine slow but terminating cases can be
							// suspected any number of times, each is re-run alone)
							isolated++
						}
					} else {
						dump, _ := os.ReadFile(filepath.Join(dir, fmt.Sprintf("shard-%d.cur.dump", k)))
						v = &ViolationRec{Property: propID, Tier: tier, Seed: seed, Case: cur.Case, Prog: cur.Prog, Doc: cur.Doc,
							Sig: "hang:" + hangSite(string(dump)), Detail: "exceeded the per-case CPU budget (not re-run alone: earlier suspects in this shard were confirmed as non-terminating)", Stack: clip(string(dump), 6000)}
					}
					if v != nil {
						d.mu.Lock()
						hangs = append(hangs, v)
						d.mu.Unlock()
						nhang++
					}
					skip = append(skip, cur.Case)
					if nhang >= 12 {
						d.mu.Lock()
						aborted = append(aborted, fmt.Sprintf("shard %d abandoned after %d non-terminating cases", k, nhang))
						d.mu.Unlock()
						return
					}
				default:
					// fatal error the runtime could not recover from
					tail := tailFile(filepath.Join(dir, fmt.Sprintf("shard-%d.log", k)), 6000)
					v := &ViolationRec{Property: propID, Tier: tier, Seed: seed, Case: cur.Case, Prog: cur.Prog, Doc: cur.Doc,
						Sig: "crash:" + crashClass(tail), Detail: fmt.Sprintf("worker died with exit code %d while running this case", code), Stack: tail}
					d.mu.Lock()
					crashes = append(crashes, v)
					d.mu.Unlock()
					skip = append(skip, cur.Case)
					// restart from the checkpoint; the state file's Next may be before cur.Case
					nhang++
					if nhang >= 12 {
						d.mu.Lock()
						aborted = append(aborted, fmt.Sprintf("shard %d abandoned after %d crashing/non-terminating cases", k, nhang))
						d.mu.Unlock()
						return
					}
				}
			}
			d.mu.Lock()
			broken = append(broken, fmt.Sprintf("shard %d: too many restarts", k))
			d.mu.Unlock()
		}(k)
	}
	wg.Wait()

	// merge
	distinct := map[uint64]struct{}{}
	for k := 0; k < nw; k++ {
		b, err := os.ReadFile(filepath.Join(dir, fmt.Sprintf("shard-%d.state.json", k)))
		if err != nil {
			broken = append(broken, fmt.Sprintf("shard %d: no state", k))
			continue
		}
		st := newStats()
		json.Unmarshal(b, st)
		mergeStats(d.Merged, st)
		if hb, err := os.ReadFile(filepath.Join(dir, fmt.Sprintf("shard-%d.hashes", k))); err == nil {
			for i := 0; i+8 <= len(hb); i += 8 {
				distinct[binary.LittleEndian.Uint64(hb[i:])] = struct{}{}
			}
		}
		if f, err := os.Open(filepath.Join(dir, fmt.Sprintf("shard-%d.viol.jsonl", k))); err == nil {
			sc := bufio.NewScanner(f)
			sc.Buffer(make([]byte, 1<<20), 64<<20)
			for sc.Scan() {
				v := &ViolationRec{}
				if json.Unmarshal(sc.Bytes(), v) == nil {
					d.Viol = append(d.Viol, v)
				}
			}
			f.Close()
		}
	}
	d.Distinct = int64(len(distinct))
	for _, v := range hangs {
		d.Viol = append(d.Viol, v)
		d.Merged.Verdicts["violated"]++
		d.Merged.Outcomes["hang"]++
	}
	for _, v := range crashes {
		d.Viol = append(d.Viol, v)
		d.Merged.Verdicts["violated"]++
		d.Merged.Outcomes["crash"]++
	}
	// race reports (only produced by -race builds)
	races := collectRaces(dir)
	if p.Race {
		d.Cover("race_reports", len(races))
		for _, rr := range races {
			d.Viol = append(d.Viol, &ViolationRec{Property: propID, Tier: tier, Seed: seed, Case: -1, Sig: "race:" + rr.key, Detail: "data race reported by the Go race detector", Stack: clip(rr.text, 6000)})
			d.Merged.Verdicts["violated"]++
		}
	}

	if len(aborted) > 0 {
		d.Cover("shards_abandoned", aborted)
	}
	if p.Post != nil && len(broken) == 0 {
		p.Post(d)
	}

	// de-duplicate violations by (case, sig)
	seen := map[string]bool{}
	var viol []*ViolationRec
	for _, v := range d.Viol {
		k := fmt.Sprintf("%d|%s", v.Case, v.Sig)
		if v.Case < 0 {
			k = fmt.Sprintf("%d|%s|%s", v.Case, v.Sig, v.Detail)
		}
		if !seen[k] {
			seen[k] = true
			viol = append(viol, v)
		}
	}
	sort.SliceStable(viol, func(i, j int) bool { return viol[i].Case < viol[j].Case })

	// known findings
	known := loadFindings(root)
	knownHit := map[string]int{}
	var unlisted []*ViolationRec
	for _, v := range viol {
		matched := false
		for _, f := range known {
			if f.matches(v) {
				knownHit[f.ID]++
				matched = true
				break
			}
		}
		if !matched {
			unlisted = append(unlisted, v)
		}
	}
	for _, f := range known {
		if n := knownHit[f.ID]; n > 0 {
			fmt.Printf("KNOWN-FINDING: property=%s %s (%s; %d event(s) this run)\n", f.Property, f.What, f.ID, n)
		}
	}

	exit := 0
	if len(unlisted) > 0 {
		exit = 1
		os.MkdirAll(filepath.Join(root, "replays"), 0o755)
		printed := map[string]int{}
		for _, v := range unlisted {
			if printed[v.Sig] >= 3 || len(printed) > 12 {
				continue
			}
			printed[v.Sig]++
			b, _ := json.MarshalIndent(v, "", " ")
			h := sha1.Sum(b)
			path := filepath.Join(root, "replays", fmt.Sprintf("%s-%x.json", propID, h[:6]))
			os.WriteFile(path, b, 0o644)
			fmt.Printf("VIOLATION property=%s replay=%s\n", propID, path)
			fmt.Printf("  sig=%s case=%d prog=%s doc=%s\n  %s\n", v.Sig, v.Case, clip(strconv.Quote(v.Prog), 300), clip(v.Doc, 200), clip(v.Detail, 600))
		}
	}
	for _, s := range d.Merged.Inconclusive {
		fmt.Printf("INCONCLUSIVE property=%s %s\n", propID, s)
	}

	observed := d.Merged.Evaluations > 0 && (d.Merged.Verdicts["held"]+d.Merged.Verdicts["violated"]+d.Merged.Verdicts["inconclusive"]) > 0
	if len(broken) > 0 || !observed {
		for _, b := range broken {
			fmt.Printf("HARNESS-BROKEN property=%s %s\n", propID, b)
		}
		if !observed {
			fmt.Printf("HARNESS-BROKEN property=%s the monitors observed nothing\n", propID)
		}
		if exit == 0 {
			exit = ExitNoEvents
		}
	}

	wall := time.Since(t0).Seconds()
	d.writeEvidence(plan, wall, len(viol), len(unlisted), knownHit, broken)
	fmt.Printf("SUMMARY property=%s tier=%s seed=%d cases=%d evaluations=%d distinct_nontrivial=%d held=%d violated=%d (unlisted %d) inconclusive=%d wall=%.1fs\n",
		propID, tier, seed, d.Merged.Cases, d.Merged.Evaluations, d.Distinct, d.Merged.Verdicts["held"], len(viol), len(unlisted), d.Merged.Verdicts["inconclusive"], wall)
	return exit
}

func mergeStats(dst, src *Stats) {
	dst.Evaluations += src.Evaluations
	dst.Cases += src.Cases
	for k, v := range src.Outcomes {
		dst.Outcomes[k] += v
	}
	for k, v := range src.Tags {
		dst.Tags[k] += v
	}
	for k, v := range src.Verdicts {
		dst.Verdicts[k] += v
	}
	for k, v := range src.Counters {
		dst.Counters[k] += v
	}
	for k, v := range src.ViolBySig {
		dst.ViolBySig[k] += v
	}
	dst.Inconclusive = append(dst.Inconclusive, src.Inconclusive...)
	for _, s := range src.Samples {
		if len(dst.Samples) < 16 {
			dst.Samples = append(dst.Samples, s)
		}
	}
}

type curRec struct {
	Case int64  `json:"case"`
	Prog string `json:"prog"`
	Doc  string `json:"doc"`
}

func readCur(path string) *curRec {
	b := ReadCurFile(path)
	if b == nil {
		return nil
	}
	c := &curRec{}
	if json.Unmarshal(b, c) != nil {
		return nil
	}
	return c
}

func tailFile(path string, n int) string {
	b, _ := os.ReadFile(path)
	if len(b) > n {
		// keep the head (fatal error line) and the tail
		return string(b[:n/2]) + "\n…\n" + string(b[len(b)-n/2:])
	}
	return string(b)
}

func crashClass(log string) string {
	switch {
	case strings.Contains(log, "stack overflow") || strings.Contains(log, "stack exceeds"):
		return "stack-overflow"
	case strings.Contains(log, "concurrent map"):
		return "concurrent-map"
	case strings.Contains(log, "out of memory"):
		return "oom"
	case strings.Contains(log, "checkptr"):
		return "checkptr"
	case strings.Contains(log, "fatal error"):
		return "fatal"
	}
	return "died"
}

// isolate re-runs one suspect case alone with a generous CPU budget; a case
// that still does not finish is a non-termination violation.
func (d *Driver) isolate(cur *curRec, code int) *ViolationRec {
	args := []string{"one", "-prop", d.Prop.ID, "-tier", d.Tier, "-seed", strconv.FormatUint(d.Seed, 10),
		"-case", strconv.FormatInt(cur.Case, 10), "-dir", d.Dir, "-cpu", "30"}
	cmd := exec.Command(d.Bin, args...)
	var out bytes.Buffer
	cmd.Stdout, cmd.Stderr = &out, &out
	cmd.Env = append(os.Environ(), "GOMAXPROCS=2")
	done := make(chan error, 1)
	cmd.Start()
	go func() { done <- cmd.Wait() }()
	select {
	case err := <-done:
		ec := 0
		if ee, ok := err.(*exec.ExitError); ok {
			ec = ee.ExitCode()
		}
		if ec == ExitHang || ec == ExitMem {
			dump, _ := os.ReadFile(filepath.Join(d.Dir, fmt.Sprintf("single-%d.cur.dump", cur.Case)))
			sig := "hang"
			det := "did not terminate within 30 s of CPU time (>=10^5 x the median case cost); goroutine dump attached"
			if ec == ExitMem {
				sig = "memory-blowup"
				det = "heap grew beyond 1.5 GiB for a bounded-size input"
			} else if strings.Contains(string(dump), "blocked=true") {
				sig = "blocked"
				det = "did not terminate and used no CPU time for 45 s when run alone: every goroutine of the case is blocked (a deadlock); goroutine dump attached"
			}
			return &ViolationRec{Property: d.Prop.ID, Tier: d.Tier, Seed: d.Seed, Case: cur.Case, Prog: cur.Prog, Doc: cur.Doc,
				Sig: sig + ":" + hangSite(string(dump)), Detail: det, Stack: clip(string(dump), 6000)}
		}
		// It finished (or judged) when run alone: slow but terminating. The
		// verdict of the isolated run stands in for the skipped case.
		if ec == 1 {
			var res struct {
				Violation *ViolationRec `json:"violation"`
			}
			if json.Unmarshal(out.Bytes(), &res) == nil && res.Violation != nil {
				return res.Violation
			}
		}
		d.mu.Lock()
		d.Merged.Counters["slow_cases_rerun_alone"]++
		if ec == 0 {
			// (the case was abandoned by its shard before it had a verdict)
			d.Merged.Verdicts["held"]++
		}
		d.mu.Unlock()
		return nil
	case <-time.After(10 * time.Minute):
		cmd.Process.Kill()
		d.Inconclusive(fmt.Sprintf("case %d: wall-clock guard fired during isolated re-run", cur.Case))
		return nil
	}
}

var reRepoFrame = regexp.MustCompile(`github\.com/blues/jsonata-go(?:/[a-z]+)*\.([A-Za-z0-9_.()*]+)\(`)

func hangSite(dump string) string {
	// first repo frame of the first goroutine that is running
	idx := strings.Index(dump, "[running]")
	if idx < 0 {
		idx = strings.Index(dump, "[runnable]")
	}
	if idx >= 0 {
		if m := reRepoFrame.FindStringSubmatch(dump[idx:]); m != nil {
			return m[1]
		}
	}
	if m := reRepoFrame.FindStringSubmatch(dump); m != nil {
		return m[1]
	}
	return "unknown"
}

type raceReport struct {
	key  string
	text string
}

// collectRaces parses race-detector logs and de-duplicates reports by the pair
// of outermost repository frames.
func collectRaces(dir string) []raceReport {
	files, _ := filepath.Glob(filepath.Join(dir, "race-*"))
	seen := map[string]bool{}
	var out []raceReport
	for _, f := range files {
		b, err := os.ReadFile(f)
		if err != nil {
			continue
		}
		blocks := strings.Split(string(b), "==================")
		for _, blk := range blocks {
			if !strings.Contains(blk, "WARNING: DATA RACE") {
				continue
			}
			ms := reRepoFrame.FindAllStringSubmatch(blk, -1)
			if len(ms) == 0 {
				continue // no repository frame: not attributable to the subject
			}
			// the innermost repo frames of the two accesses
			parts := strings.Split(blk, "Previous ")
			k := ""
			for _, p := range parts[:min(2, len(parts))] {
				if m := reRepoFrame.FindStringSubmatch(p); m != nil {
					k += m[1] + "|"
				}
			}
			if !seen[k] {
				seen[k] = true
				out = append(out, raceReport{key: k, text: blk})
			}
		}
	}
	return out
}

func (d *Driver) writeEvidence(plan *Plan, wall float64, nviol, nunlisted int, knownHit map[string]int, broken []string) {
	cov := map[string]any{
		"evaluations":          d.Merged.Evaluations,
		"cases":                d.Merged.Cases,
		"distinct_nontrivial":  d.Distinct,
		"rule":                 d.Prop.Rule,
		"samples":              d.Merged.Samples,
		"outcome_histogram":    d.Merged.Outcomes,
		"feature_histogram":    d.Merged.Tags,
		"verdicts":             d.Merged.Verdicts,
		"counters":             d.Merged.Counters,
		"exhaustive":           false,
		"exhaustive_subspaces": plan.Subspaces,
		"inconclusive":         d.Merged.Inconclusive,
		"known_findings_hit":   knownHit,
		"unlisted_violations":  nunlisted,
		"workers":              d.Workers,
	}
	if len(d.Merged.Samples) == 0 {
		cov["samples"] = []any{}
	}
	if len(broken) > 0 {
		cov["harness_broken"] = broken
	}
	if len(d.Merged.ViolBySig) > 0 {
		cov["violations_by_signature"] = d.Merged.ViolBySig
	}
	for k, v := range d.extraCov {
		cov[k] = v
	}
	ev := map[string]any{
		"property_id": d.Prop.ID,
		"tier":        d.Tier,
		"seed":        d.Seed,
		"level":       "exploration",
		"coverage":    cov,
		"assumptions": d.Prop.Assumptions,
		"wall_s":      wall,
		"violations":  nviol,
	}
	if d.Prop.Assumptions == nil {
		ev["assumptions"] = []string{}
	}
	os.MkdirAll(filepath.Join(d.Root, "evidence"), 0o755)
	b, _ := json.MarshalIndent(ev, "", " ")
	os.WriteFile(filepath.Join(d.Root, "evidence", d.Prop.ID+".json"), b, 0o644)
}
