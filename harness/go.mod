module verif/harness

go 1.23

require (
	github.com/anishathalye/porcupine v1.3.0
	github.com/blues/jsonata-go v0.0.0
)

replace github.com/blues/jsonata-go => /repo
