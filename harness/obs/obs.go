// Package obs turns calls of the public API into observation records.
package obs

import (
	"encoding/json"
	"fmt"
	"math"
	"reflect"
	"strings"

	jsonata "github.com/blues/jsonata-go"
	"github.com/blues/jsonata-go/jparse"
	"github.com/blues/jsonata-go/jtypes"

	"verif/harness/fw"
)

// Outcome of one Compile+Eval.
type Outcome struct {
	Kind     string // value | undefined | error | panic | compile-error
	Val      interface{}
	Err      error
	ErrClass string
	Panic    *fw.PanicInfo
}

func (o Outcome) String() string {
	switch o.Kind {
	case "value":
		return "value " + Show(o.Val)
	case "undefined":
		return "undefined"
	case "error", "compile-error":
		return o.Kind + " " + o.ErrClass + " (" + o.Err.Error() + ")"
	case "panic":
		return "panic " + o.Panic.Value
	}
	return o.Kind
}

// Class is the coarse class used in histograms.
func (o Outcome) Class() string {
	switch o.Kind {
	case "error", "compile-error":
		return o.Kind + ":" + o.ErrClass
	case "panic":
		return "panic:" + o.Panic.Site + ":" + o.Panic.Class
	}
	return o.Kind
}

// ErrClassOf classifies an error returned by Eval.
func ErrClassOf(err error) string {
	switch e := err.(type) {
	case *jsonata.EvalError:
		return fmt.Sprintf("eval:%d", e.Type)
	case jsonata.EvalError:
		return fmt.Sprintf("eval:%d", e.Type)
	case *jsonata.ArgCountError:
		return "argcount"
	case *jsonata.ArgTypeError:
		return fmt.Sprintf("argtype:%d", e.Which)
	case *jparse.Error:
		return fmt.Sprintf("parse:%d", e.Type)
	}
	return "other"
}

// Compile wraps jsonata.Compile under a panic guard.
func Compile(prog string) (*jsonata.Expr, Outcome) {
	var e *jsonata.Expr
	var err error
	if pi := fw.Guard(func() { e, err = jsonata.Compile(prog) }); pi != nil {
		return nil, Outcome{Kind: "panic", Panic: pi}
	}
	if err != nil {
		return nil, Outcome{Kind: "compile-error", Err: err, ErrClass: ErrClassOf(err)}
	}
	return e, Outcome{Kind: "value"}
}

// Eval wraps Expr.Eval under a panic guard.
func Eval(e *jsonata.Expr, input interface{}) Outcome {
	var v interface{}
	var err error
	if pi := fw.Guard(func() { v, err = e.Eval(input) }); pi != nil {
		return Outcome{Kind: "panic", Panic: pi}
	}
	if err == jsonata.ErrUndefined {
		return Outcome{Kind: "undefined", Val: v, Err: err}
	}
	if err != nil {
		return Outcome{Kind: "error", Val: v, Err: err, ErrClass: ErrClassOf(err)}
	}
	return Outcome{Kind: "value", Val: v}
}

// Run compiles and evaluates.
func Run(prog string, input interface{}) Outcome {
	e, o := Compile(prog)
	if e == nil {
		return o
	}
	return Eval(e, input)
}

// Show renders a result for messages (JSON when possible).
func Show(v interface{}) string {
	b, err := json.Marshal(v)
	if err != nil {
		return fmt.Sprintf("%#v", v)
	}
	s := string(b)
	if len(s) > 400 {
		s = s[:400] + "…"
	}
	return s
}

var typeCallable = reflect.TypeOf((*jtypes.Callable)(nil)).Elem()

// Fn is the marker a callable is normalised to.
type Fn struct{}

// Foreign marks a value outside the JSON-representable set.
type Foreign struct{ Type string }

// Normalize converts a library result into plain data: nil, bool, float64,
// string, []interface{}, map[string]interface{}, Fn{} for callables and
// Foreign{} for anything else. notes collects remarkable things seen.
func Normalize(v interface{}, notes map[string]int) interface{} {
	return norm(reflect.ValueOf(v), notes, 0)
}

func note(notes map[string]int, k string) {
	if notes != nil {
		notes[k]++
	}
}

func norm(v reflect.Value, notes map[string]int, depth int) interface{} {
	if depth > 300 {
		note(notes, "cycle-or-too-deep")
		return Foreign{"cycle-or-too-deep"}
	}
	if !v.IsValid() {
		return nil
	}
	t := v.Type()
	if t.Implements(typeCallable) {
		if (v.Kind() == reflect.Ptr || v.Kind() == reflect.Interface) && v.IsNil() {
			note(notes, "nil-callable")
			return nil
		}
		return Fn{}
	}
	switch v.Kind() {
	case reflect.Interface:
		if v.IsNil() {
			return nil
		}
		return norm(v.Elem(), notes, depth+1)
	case reflect.Ptr:
		if v.IsNil() {
			if t.Elem().Kind() == reflect.Interface {
				note(notes, "typed-nil-null")
				return nil
			}
			note(notes, "foreign:"+t.String())
			return Foreign{t.String()}
		}
		if reflect.PtrTo(t.Elem()).Implements(typeCallable) {
			return Fn{}
		}
		note(notes, "foreign:"+t.String())
		return Foreign{t.String()}
	case reflect.Bool:
		return v.Bool()
	case reflect.Int, reflect.Int8, reflect.Int16, reflect.Int32, reflect.Int64:
		return float64(v.Int())
	case reflect.Uint, reflect.Uint8, reflect.Uint16, reflect.Uint32, reflect.Uint64:
		return float64(v.Uint())
	case reflect.Float32, reflect.Float64:
		f := v.Float()
		if math.IsNaN(f) || math.IsInf(f, 0) {
			note(notes, "non-finite")
			return Foreign{"non-finite number"}
		}
		if f == 0 {
			return float64(0) // -0 == 0
		}
		return f
	case reflect.String:
		return v.String()
	case reflect.Slice, reflect.Array:
		if v.Kind() == reflect.Slice && v.IsNil() {
			note(notes, "nil-slice")
		}
		out := make([]interface{}, v.Len())
		for i := range out {
			out[i] = norm(v.Index(i), notes, depth+1)
		}
		return out
	case reflect.Map:
		if t.Key().Kind() != reflect.String {
			note(notes, "foreign:"+t.String())
			return Foreign{t.String()}
		}
		out := make(map[string]interface{}, v.Len())
		it := v.MapRange()
		for it.Next() {
			out[it.Key().String()] = norm(it.Value(), notes, depth+1)
		}
		return out
	case reflect.Struct:
		if reflect.PtrTo(t).Implements(typeCallable) {
			return Fn{}
		}
	}
	note(notes, "foreign:"+t.String())
	return Foreign{t.String()}
}

// HasForeign reports the first foreign value in normalised data.
func HasForeign(v interface{}) (string, bool) {
	switch v := v.(type) {
	case Foreign:
		return v.Type, true
	case []interface{}:
		for _, x := range v {
			if s, ok := HasForeign(x); ok {
				return s, true
			}
		}
	case map[string]interface{}:
		for _, x := range v {
			if s, ok := HasForeign(x); ok {
				return s, true
			}
		}
	}
	return "", false
}

// Equal is deep equality on normalised data (numbers by value, objects unordered).
func Equal(a, b interface{}) bool {
	switch a := a.(type) {
	case nil:
		return b == nil
	case bool:
		bb, ok := b.(bool)
		return ok && a == bb
	case float64:
		bb, ok := b.(float64)
		return ok && a == bb
	case string:
		bb, ok := b.(string)
		return ok && a == bb
	case Fn:
		_, ok := b.(Fn)
		return ok
	case Foreign:
		return false
	case []interface{}:
		bb, ok := b.([]interface{})
		if !ok || len(a) != len(bb) {
			return false
		}
		for i := range a {
			if !Equal(a[i], bb[i]) {
				return false
			}
		}
		return true
	case map[string]interface{}:
		bb, ok := b.(map[string]interface{})
		if !ok || len(a) != len(bb) {
			return false
		}
		for k, x := range a {
			y, ok := bb[k]
			if !ok || !Equal(x, y) {
				return false
			}
		}
		return true
	}
	return false
}

// EqualMultiset compares two arrays as bags (one level), everything else exactly.
func EqualMultiset(a, b interface{}) bool {
	aa, ok1 := a.([]interface{})
	bb, ok2 := b.([]interface{})
	if !ok1 || !ok2 {
		return Equal(a, b)
	}
	if len(aa) != len(bb) {
		return false
	}
	used := make([]bool, len(bb))
outer:
	for _, x := range aa {
		for j, y := range bb {
			if !used[j] && Equal(x, y) {
				used[j] = true
				continue outer
			}
		}
		return false
	}
	return true
}

// ShowNorm renders normalised data.
func ShowNorm(v interface{}) string {
	var sb strings.Builder
	showNorm(&sb, v)
	s := sb.String()
	if len(s) > 500 {
		s = s[:500] + "…"
	}
	return s
}

func showNorm(sb *strings.Builder, v interface{}) {
	switch v := v.(type) {
	case Fn:
		sb.WriteString("<fn>")
	case Foreign:
		sb.WriteString("<foreign " + v.Type + ">")
	case []interface{}:
		sb.WriteString("[")
		for i, x := range v {
			if i > 0 {
				sb.WriteString(",")
			}
			showNorm(sb, x)
		}
		sb.WriteString("]")
	case map[string]interface{}:
		sb.WriteString("{")
		first := true
		keys := make([]string, 0, len(v))
		for k := range v {
			keys = append(keys, k)
		}
		sortStrings(keys)
		for _, k := range keys {
			if !first {
				sb.WriteString(",")
			}
			first = false
			b, _ := json.Marshal(k)
			sb.Write(b)
			sb.WriteString(":")
			showNorm(sb, v[k])
		}
		sb.WriteString("}")
	default:
		b, _ := json.Marshal(v)
		sb.Write(b)
	}
}

func sortStrings(a []string) {
	for i := 1; i < len(a); i++ {
		for j := i; j > 0 && a[j] < a[j-1]; j-- {
			a[j], a[j-1] = a[j-1], a[j]
		}
	}
}
