#!/bin/bash
# Entry point for every registered check:  ./run.sh <Cxx> <quick|thorough> | replay <file> | setup
set -u
cd "$(dirname "$0")"
ROOT="$(pwd)"
export GOFLAGS=-mod=mod GOPROXY=off GOSUMDB=off GOTOOLCHAIN=local
export GOMAXPROCS_DRIVER=16

build() { # $1 = output path, $2.. = extra flags
  local out="$1"; shift
  mkdir -p "$(dirname "$out")"
  ( cd "$ROOT/harness" && go build -tags verif "$@" -o "$out" ./cmd/vcheck ) 2> "$out.buildlog"
  local rc=$?
  if [ $rc -ne 0 ]; then
    echo "BUILD-FAILED: cannot build the subject/harness (see below); this is not a property verdict" >&2
    cat "$out.buildlog" >&2
    return 2
  fi
  return 0
}

israce() { case "$1" in C06) return 0;; *) return 1;; esac; }

case "${1:-}" in
  setup)
    build "$ROOT/.build/setup/vcheck" || exit 2
    build "$ROOT/.build/setup/vcheck-race" -race || exit 2
    echo "setup ok"
    ;;
  replay)
    build "$ROOT/.build/replay/vcheck" || exit 2
    exec "$ROOT/.build/replay/vcheck" replay -root "$ROOT" "$2"
    ;;
  C[0-9][0-9])
    id="$1"; tier="${2:-${VERIF_TIER:-quick}}"; seed="${VERIF_SEED:-1}"
    bin="$ROOT/.build/$id-$tier/vcheck"
    if israce "$id"; then build "$bin" -race || exit 2; else build "$bin" || exit 2; fi
    exec "$bin" drive -prop "$id" -tier "$tier" -seed "$seed" -root "$ROOT"
    ;;
  *)
    echo "usage: $0 <C01..C20> <quick|thorough> | replay <file> | setup" >&2; exit 2;;
esac
