#!/usr/bin/env python3
"""Stores a confirmed seeded change under /verif/seeded/<Cxx>-<round>/.

usage: tools/saveseed.py <agent-output-dir> <Cxx> <round> <tier-that-caught|missed> <history text>
The agent's meta.json (summary/needs/files/demo_pkg_dir) is rewritten into the
layout used by seeded/*/meta.json; patch.diff and demo_test.go are copied as is.
"""
import json, os, shutil, sys

src, pid, rnd, tier, history = sys.argv[1:6]
dst = f"/verif/seeded/{pid}-{rnd}"
os.makedirs(dst, exist_ok=True)
m = json.load(open(os.path.join(src, "meta.json")))
shutil.copy(os.path.join(src, "patch.diff"), os.path.join(dst, "patch.diff"))
shutil.copy(os.path.join(src, "demo_test.go"), os.path.join(dst, "demo_test.go"))
pkg = m.get("demo_pkg_dir", ".") or "."
race = " -race" if pid == "C06" else ""
if tier == "missed":
    result = "missed"
else:
    result = "caught (exit 1, VIOLATION lines)"
out = {
    "property": pid,
    "breaks": m.get("summary", ""),
    "needs_to_manifest": m.get("needs", ""),
    "files": m.get("files", []),
    "demo": {"file": "demo_test.go", "package_dir": pkg,
             "run": f"go test{race} -run TestSeededDemo ."},
    "author": "independent sub-agent given only the property text, a note on the round-1 change "
              "to avoid, and a scratch worktree of /repo",
    "confirmed_by": "tools/seedcheck.sh: scratch worktree of /repo HEAD; patch applies; builds with "
                    "and without -tags verif; repository suite passes with the change; demo fails "
                    "with the change and passes without it",
    "detection": {"check": f"./run.sh {pid} {tier if tier != 'missed' else 'quick'}",
                  "result": result, "history": history},
    "applied_with": f"git -C /repo apply seeded/{pid}-{rnd}/patch.diff ; ./run.sh {pid} quick ; "
                    "git -C /repo checkout -- .",
}
json.dump(out, open(os.path.join(dst, "meta.json"), "w"), indent=1)
print("saved", dst)
