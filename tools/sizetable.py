#!/usr/bin/env python3
"""prints the rows of DESIGN.md 8.2 from the SUMMARY lines of two log directories
usage: sizetable.py <dir with quick logs allq-Cxx.log> <dir with thorough logs>"""
import re, sys
def read(d, c):
    t = open(f'{d}/allq-{c}.log').read()
    m = re.search(r'SUMMARY property=\S+ tier=(\S+) seed=(\d+) cases=(\d+) evaluations=(\d+) distinct_nontrivial=(\d+).*wall=([\d.]+)s', t)
    return m.groups()
def fmt(n):
    n = int(n)
    if n >= 1000000: return f'{n/1e6:.1f} M'
    if n >= 10000: return f'{n/1e3:.0f} k'
    return str(n)
for i in range(1, 21):
    c = f'C{i:02d}'
    q = read(sys.argv[1], c); t = read(sys.argv[2], c)
    print(f'| {c} | {fmt(q[2])} / {fmt(q[3])} / {float(q[5]):.0f} s | {fmt(t[2])} / {fmt(t[3])} / {float(t[5]):.0f} s |')
