#!/usr/bin/env python3
"""rewrites the size columns of the table in DESIGN.md 8.2 from the SUMMARY lines of
two log directories (tools/allquick.sh writes /tmp/allq-Cxx.log; copy them aside per tier)
usage: sizetable.py <dir with quick logs> <dir with thorough logs>"""
import re, sys
def read(d, c):
    t = open(f'{d}/allq-{c}.log').read()
    m = re.search(r'SUMMARY property=\S+ tier=(\S+) seed=(\d+) cases=(\d+) evaluations=(\d+) distinct_nontrivial=(\d+).*wall=([\d.]+)s', t)
    return m.groups()
def fmt(n):
    n = int(n)
    if n >= 1000000: return f'{n/1e6:.1f} M'
    return f'{n:,}'.replace(',', ' ')
p = '/verif/DESIGN.md'
s = open(p).read()
for i in range(1, 21):
    c = f'C{i:02d}'
    q = read(sys.argv[1], c); t = read(sys.argv[2], c)
    assert q[0] == 'quick' and t[0] == 'thorough', (c, q[0], t[0])
    unit = {'C05': ' histories', 'C06': ' rounds'}.get(c, '')
    row = re.search(r'^\| %s \| [^|]* \| [^|]* \| (.*) \|$' % c, s, re.M)
    new = f'| {c} | {fmt(q[2])}{unit} / {float(q[5]):.0f} s | {fmt(t[2])}{unit} / {float(t[5]):.0f} s | {row.group(1)} |'
    s = s[:row.start()] + new + s[row.end():]
open(p, 'w').write(s)
