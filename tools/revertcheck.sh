#!/bin/bash
# For every "fixed:" entry of known_findings.json: revert that fix commit in
# /repo's working tree (git revert -n), run the property's quick check, restore
# the tree.  Writes seeded/REVERTS.tsv: commit, property, caught|MISSED|conflict.
# Usage: tools/revertcheck.sh [commit-prefix ...]        (/repo must be clean)
set -u
export GOFLAGS=-mod=mod GOPROXY=off GOSUMDB=off GOTOOLCHAIN=local
cd /verif
if [ -n "$(git -C /repo status --porcelain)" ]; then echo "REPO-DIRTY: refusing to run"; exit 3; fi
out=seeded/REVERTS.tsv; tmp=$(mktemp)
python3 - > "$tmp.list" <<'PY'
import json,re
k=json.load(open('/verif/known_findings.json'))
for l in k['fixed']:
    m=re.match(r'fixed: property=(C\d\d) ([0-9a-f]{7,})',l)
    if m: print(m.group(2),m.group(1))
PY
sel=("$@")
while read -r c p; do
  if [ ${#sel[@]} -gt 0 ]; then keep=0; for s in "${sel[@]}"; do [[ "$c" == $s* ]] && keep=1; done; [ $keep -eq 0 ] && continue; fi
  if ! git -C /repo cat-file -e "$c^{commit}" 2>/dev/null; then echo -e "$c\t$p\tunknown-commit" | tee -a "$tmp"; continue; fi
  if ! git -C /repo revert -n "$c" >/dev/null 2>&1; then
    git -C /repo revert --abort >/dev/null 2>&1; git -C /repo reset -q --hard HEAD
    echo -e "$c\t$p\tconflict (later commits changed the same lines)" | tee -a "$tmp"; continue
  fi
  if git -C /repo diff HEAD --quiet; then
    git -C /repo reset -q --hard HEAD
    echo -e "$c\t$p\tsuperseded (a later fix rewrote these lines: reverting changes nothing)" | tee -a "$tmp"; continue
  fi
  if ! (cd /repo && go build ./... >/dev/null 2>&1); then
    git -C /repo reset -q --hard HEAD; echo -e "$c\t$p\tdoes-not-build-when-reverted" | tee -a "$tmp"; continue
  fi
  o=$(./run.sh "$p" quick 2>&1); rc=$?
  git -C /repo reset -q --hard HEAD
  if [ $rc -eq 1 ] && echo "$o" | grep -q '^VIOLATION'; then
    echo -e "$c\t$p\tcaught\t$(echo "$o" | grep -o 'sig=[^ ]*' | sed 's/^sig=//' | sort | uniq -c | sort -rn | head -2 | awk '{printf "%s ", $2}')" | tee -a "$tmp"
  elif why=$(grep "^$c	" seeded/superseded.tsv | cut -f2); [ -n "$why" ]; then
    echo -e "$c\t$p\tsuperseded in effect: $why" | tee -a "$tmp"
  else
    echo -e "$c\t$p\tMISSED (exit $rc)" | tee -a "$tmp"
  fi
done < "$tmp.list"
[ ${#sel[@]} -eq 0 ] && cp "$tmp" "$out"
rm -f "$tmp" "$tmp.list"
git -C /repo status --porcelain | head -3
