#!/bin/bash
# Re-runs every stored seeded change against its property's check (quick tier,
# then thorough if quick misses) and writes seeded/MATRIX.tsv:
#   id <tab> tier-that-caught|MISSED <tab> exit <tab> top signatures
# Usage: tools/seedmatrix.sh [id-prefix ...]     (/repo must be clean)
set -u
export GOFLAGS=-mod=mod GOPROXY=off GOSUMDB=off GOTOOLCHAIN=local
cd /verif
if [ -n "$(git -C /repo status --porcelain)" ]; then echo "REPO-DIRTY: refusing to run"; exit 3; fi
out=seeded/MATRIX.tsv
tmp=$(mktemp)
sel=("$@")
for d in seeded/C*-*/; do
  id=$(basename "$d"); prop=${id%%-*}
  # (a change can break another property than the one its author was given:
  # meta.json "decided_by" names the check that decides it)
  alt=$(python3 -c "import json;print(json.load(open('/verif/${d}meta.json')).get('decided_by',''))" 2>/dev/null)
  [ -n "$alt" ] && prop=$alt
  if [ ${#sel[@]} -gt 0 ]; then
    keep=0; for s in "${sel[@]}"; do [[ "$id" == $s* ]] && keep=1; done
    [ $keep -eq 0 ] && continue
  fi
  git -C /repo apply "/verif/${d}patch.diff" || { echo -e "$id\tPATCH-DOES-NOT-APPLY\t-\t-" | tee -a "$tmp"; continue; }
  res=MISSED; rc=0; sigs=""
  for t in quick thorough; do
    o=$(./run.sh "$prop" "$t" 2>&1); rc=$?
    if [ $rc -eq 1 ] && echo "$o" | grep -q '^VIOLATION'; then
      res=$t
      sigs=$(echo "$o" | grep -o 'sig=[^ ]*' | sed 's/^sig=//' | sort | uniq -c | sort -rn | head -4 | awk '{printf "%s(%s) ", $2, $1}')
      break
    fi
  done
  git -C /repo checkout -- .
  echo -e "$id\t$res\t$rc\t$sigs" | tee -a "$tmp"
done
if [ ${#sel[@]} -eq 0 ]; then sort "$tmp" > "$out"; fi
rm -f "$tmp"
git -C /repo status --porcelain | head -3
