#!/bin/bash
# Confirms a seeded change (patch.diff + demo_test.go + meta.json) and runs the
# checks against it:  tools/seedcheck.sh <dir-with-patch> <Cxx> [tier...]
#  1. scratch worktree of /repo: patch applies, builds (with and without the
#     verif tag), the repository suite passes, the demo fails with the patch
#     and passes without it;
#  2. /repo: apply the patch, run ./run.sh <Cxx> <tier>, undo the patch.
# Prints one line per step; exit 0 if the change was confirmed and caught.
set -u
export GOFLAGS=-mod=mod GOPROXY=off GOSUMDB=off GOTOOLCHAIN=local
dir="$(cd "$1" && pwd)"; id="$2"; shift 2
tiers=("$@"); [ ${#tiers[@]} -eq 0 ] && tiers=(quick)
patch="$dir/patch.diff"; demo="$dir/demo_test.go"
pkgdir=$(python3 -c "import json,sys; print(json.load(open('$dir/meta.json')).get('demo_pkg_dir','.') or '.')" 2>/dev/null || echo .)
[ "$pkgdir" = "/" ] && pkgdir=.
if [ -n "$(git -C /repo status --porcelain)" ]; then echo "REPO-DIRTY: refusing to run"; exit 3; fi
wt=/tmp/seedv-$id-$$
git -C /repo worktree add -q --detach "$wt" HEAD || exit 3
cleanup() { git -C /repo worktree remove --force "$wt" >/dev/null 2>&1; rm -rf "$wt"; }
trap cleanup EXIT
confirmed=1
( cd "$wt" && git apply "$patch" ) || { echo "CONFIRM patch-applies=no"; exit 2; }
( cd "$wt" && go build ./... && go build -tags verif ./... ) >/dev/null 2>&1 && echo "CONFIRM builds=yes" || { echo "CONFIRM builds=no"; confirmed=0; }
( cd "$wt" && go test -vet=off -count=1 ./... ) >"$wt/.suite.log" 2>&1 && echo "CONFIRM suite-passes-with-change=yes" || { echo "CONFIRM suite-passes-with-change=no"; tail -5 "$wt/.suite.log"; confirmed=0; }
race=""; grep -q '"property": *"C06"' "$dir/meta.json" 2>/dev/null && race="-race"
[ "$id" = "C06" ] && race="-race"
cp "$demo" "$wt/$pkgdir/zz_seeded_demo_test.go"
( cd "$wt/$pkgdir" && timeout 300 go test $race -vet=off -count=1 -run TestSeededDemo . ) >"$wt/.demo1.log" 2>&1 && { echo "CONFIRM demo-fails-with-change=no"; confirmed=0; } || echo "CONFIRM demo-fails-with-change=yes"
( cd "$wt" && git apply -R "$patch" )
( cd "$wt/$pkgdir" && timeout 300 go test $race -vet=off -count=1 -run TestSeededDemo . ) >"$wt/.demo2.log" 2>&1 && echo "CONFIRM demo-passes-without-change=yes" || { echo "CONFIRM demo-passes-without-change=no"; tail -5 "$wt/.demo2.log"; confirmed=0; }
caught=0
git -C /repo apply "$patch" || { echo "cannot apply to /repo"; exit 2; }
for t in "${tiers[@]}"; do
  out=$(cd /verif && ./run.sh "$id" "$t" 2>&1); rc=$?
  nviol=$(echo "$out" | grep -c '^VIOLATION')
  echo "CHECK $id $t exit=$rc violation-lines=$nviol :: $(echo "$out" | grep '^SUMMARY' | head -1)"
  echo "$out" | grep -A2 '^VIOLATION' | head -6
  if [ $rc -eq 1 ] && [ $nviol -gt 0 ]; then caught=1; break; fi
done
git -C /repo checkout -- . ; git -C /repo status --porcelain | head -3
echo "RESULT id=$id confirmed=$confirmed caught=$caught"
[ $confirmed -eq 1 ] && [ $caught -eq 1 ]
