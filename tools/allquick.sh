#!/bin/bash
# runs every check's quick tier (or the tier given as $1) and prints one line per check
tier=${1:-quick}
cd /verif
for i in 01 02 03 04 05 06 07 08 09 10 11 12 13 14 15 16 17 18 19 20; do
  ./run.sh C$i $tier > /tmp/allq-C$i.log 2>&1; rc=$?
  echo "C$i rc=$rc $(grep -o 'violated=[0-9]* (unlisted [0-9]*)' /tmp/allq-C$i.log) $(grep -c '^KNOWN-FINDING' /tmp/allq-C$i.log) known $(grep -o 'wall=.*' /tmp/allq-C$i.log)"
done
