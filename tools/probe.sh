#!/bin/bash
# development helper: rebuild and run the probe against /repo's working tree
export GOFLAGS=-mod=mod GOPROXY=off GOSUMDB=off GOTOOLCHAIN=local
( cd /verif/harness && go build -tags verif -o /verif/.build/probe ./cmd/probe ) || exit 2
exec timeout 20 /verif/.build/probe "$@"
