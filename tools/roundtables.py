#!/usr/bin/env python3
"""Prints the kill-matrix tables of the later seeding rounds (DESIGN 8.7) from
seeded/*/meta.json, seeded/MATRIX.tsv and notes/roundtables.json.
usage: tools/roundtables.py <first-round> <last-round>"""
import json, os, re, sys
lo, hi = int(sys.argv[1]), int(sys.argv[2])
short = json.load(open('/verif/notes/roundtables.json'))
mat = {}
for l in open('/verif/seeded/MATRIX.tsv'):
    f = l.rstrip('\n').split('\t')
    if len(f) >= 4:
        mat[f[0]] = f
for r in range(lo, hi + 1):
    print(f"#### Round {r}\n")
    print("| id | change (site) | first | now | signature that fires |")
    print("|---|---|---|---|---|")
    for i in range(1, 21):
        c = 'C%02d' % i
        k = f'{c}-{r}'
        p = f'/verif/seeded/{k}/meta.json'
        retired = False
        if not os.path.exists(p):
            p = f'/verif/seeded/retired/{k}/meta.json'
            retired = True
            if not os.path.exists(p):
                continue
        m = json.load(open(p))
        desc = short.get(f'short{r}', {}).get(c)
        if not desc:
            desc = re.sub(r'\s+', ' ', m.get('breaks') or m.get('summary') or '')
            desc = desc[:230].rsplit(' ', 1)[0] + ' …' if len(desc) > 230 else desc
        desc = desc.replace('|', '\\|')
        h = (m.get('detection') or {}).get('history', '')
        first = 'q'
        if 'missed at first' in h:
            first = '**missed**'
        elif 'thorough' in h and 'at first' in h:
            first = 'thorough only'
        if m.get('decided_by'):
            first += f" ({m['decided_by']})"
        if retired:
            now, sig = 'retired', m.get('retired', '')[:90].replace('|', '\\|') + ' …'
        else:
            f = mat.get(k)
            now = {'quick': 'q', 'thorough': 't'}.get(f[1], f[1]) if f else '?'
            sig = '`' + re.sub(r'\(\d+\)', '', f[3]).strip().replace(' ', '`, `').replace('|', '\\|') + '`' if f else ''
        print(f"| {k} | {desc} | {first} | {now} | {sig} |")
    print()
