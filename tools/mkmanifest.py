#!/usr/bin/env python3
"""Regenerates /verif/MANIFEST.json from the table below (kept valid at all times)."""
import json, os, subprocess
ROOT = os.path.dirname(os.path.dirname(os.path.abspath(__file__)))

def repo_commits():
    out = subprocess.run(["git", "-C", "/repo", "log", "--format=%h %s"], capture_output=True, text=True).stdout
    return [l.split()[0] for l in out.splitlines() if l.split(" ", 1)[1].startswith("verif hooks")]

CHECKS = {
 # id: (technique, level text, level note, design ref)
}
exec(open(os.path.join(ROOT, "tools", "checks_table.py")).read())

props = [json.loads(l) for l in open(os.path.join(ROOT, "properties.jsonl"))]
checks, na = [], []
for p in props:
    pid = p["id"]
    if pid in CHECKS:
        tech, text, note = CHECKS[pid]
        checks.append({
            "property_id": pid,
            "quick_cmd": f"./run.sh {pid} quick",
            "thorough_cmd": f"./run.sh {pid} thorough",
            "evidence_file": f"/verif/evidence/{pid}.json",
            "replay_cmd_template": "./run.sh replay {path}",
            "engine": "harness",
            "level_claimed": {"category": "exploration", "text": text, "design_ref": f"DESIGN.md section 3, {pid}"},
            "level_note": note,
            "technique": tech,
        })
    else:
        na.append({"property_id": pid, "reason": NOT_APPLICABLE.get(pid, "check not built yet in this session; no claim is made")})
m = {
 "version": 1,
 "setup_cmd": "./run.sh setup",
 "hooks": {
   "guard": "verif",
   "enable": "go build -tags verif (run.sh builds every worker from /repo's working tree with this tag)",
   "baseline_off_cmd": "cd /repo && go test -vet=off -count=1 ./...",
   "source_commits": repo_commits(),
   "add_only": True,
 },
 "engines": [{"name": "harness", "path": "/verif/harness", "serves_properties": sorted(CHECKS),
   "kind_free_text": "Go runtime-monitoring harness: deterministic generators, reference-model / law / snapshot oracles judging every call made through the public API, per-shard worker processes with CPU-time watchdog and crash attribution, Go race detector and porcupine for the concurrent properties"}],
 "checks": checks,
 "not_applicable": na,
 "notes": "Every check: exit 0 = held on everything explored, exit 1 + VIOLATION line = unlisted violation, exit 2 = subject does not build, exit 3 = harness broken / observed nothing. VERIF_SEED reseeds the random part of each workload; exhaustive sub-spaces are seed-independent. Known findings: /verif/known_findings.json.",
}
json.dump(m, open(os.path.join(ROOT, "MANIFEST.json"), "w"), indent=1)
print("checks:", [c["property_id"] for c in checks], "n/a:", [x["property_id"] for x in na])
