NOT_APPLICABLE = {}
CHECKS = {
 "C08": ("runtime monitoring: totality monitor over exhaustive short inputs + mutation/soup fuzzing, isolated workers with CPU-time watchdog",
         "Every Compile/Parse/MustCompile call on the workload is observed in an isolated worker: panic (recovered), crash (process exit + .cur attribution), non-termination (CPU-time watchdog, re-run alone with 30 s) and the shape of the returned value/error are judged. Held on the enumerated sub-spaces completely and on the sampled rest; nothing is claimed for inputs not generated.",
         "Trusted: Go runtime/recover, getrusage CPU accounting, the harness generators. Inputs bounded to <=256 bytes."),
}
