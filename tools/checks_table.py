NOT_APPLICABLE = {}
CHECKS = {
 "C08": ("runtime monitoring: totality monitor over exhaustive short inputs + mutation/soup fuzzing, isolated workers with CPU-time watchdog",
         "Every Compile/Parse/MustCompile call on the workload is observed in an isolated worker: panic (recovered), crash (process exit + .cur attribution), non-termination (CPU-time watchdog, re-run alone with 30 s) and the shape of the returned value/error are judged. Held on the enumerated sub-spaces completely and on the sampled rest; nothing is claimed for inputs not generated.",
         "Trusted: Go runtime/recover, getrusage CPU accounting, the harness generators. Inputs bounded to <=256 bytes."),
}
CHECKS["C09"] = ("runtime monitoring: totality monitor over a systematic built-in x arity x argument-kind sweep and type-chaotic generated programs, isolated workers with CPU-time watchdog",
  "Every Eval on the workload runs under recover() in an isolated worker whose current case is persisted before the call: recovered panics (with the first repository frame), process crashes and CPU-budget overruns (2 s, re-run alone with 30 s) are the refuting events. The sweep over (built-in, arity, argument kinds) is exhaustive; programs are sampled. Nothing is claimed for programs not generated.",
  "Trusted: Go runtime/recover, getrusage, generators. Size-like parameters are bounded by the generator as the property's quantifier prescribes; user recursion is excluded except a bounded-counter shape.")
CHECKS["C10"] = ("runtime monitoring: result-shape monitor (reflective type walk, json.Marshal, error/result consistency) and Eval-vs-EvalBytes differential on the C09 workload plus malformed input bytes",
  "Every nil-error result is walked reflectively for values outside the JSON-representable set (and cycles), marshalled, and compared with EvalBytes on the same bytes; malformed inputs must be rejected. The 'ErrUndefined iff no value' clause is decided against the reference evaluator inside the model-based checks.",
  "Trusted: encoding/json as the definition of valid JSON and of the JSON encoding of a value; programs whose output legitimately depends on Go map order are excluded from the differential (counted in evidence).")
